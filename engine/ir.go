package main

import (
	"regexp"
	"fmt"
	"go/types"
	"sort"
	"strings"
)

// The verification-condition graph: an acyclic graph of nodes, each a list of assume/assert
// statements; edges carry a guard and equalities that define join variables (passive form).

type stKind int

const (
	stAssume stKind = iota
	stAssert
)

type Stmt struct {
	Kind stKind
	F    string
	Ob   *Obligation
}

type Edge struct {
	To      *Node
	Cond    string
	Assumes []string
}

type Node struct {
	ID    int
	Label string
	Stmts []Stmt
	Succ  []*Edge
	Preds []*Node
}

type Obligation struct {
	Name   string
	Kind   string // ensures, requires, invariant-init, invariant-pres, decreases, safe, assert, lemma, cover, structural
	Fn     string // function under contract
	Props  []string
	Clause string // contract text
	Pos    string
	Expect string // "" = must be unsat (valid); "sat" = cover (must be satisfiable)
	node   *Node
	index  int
	vc     *VC
	// results
	Status  string // discharged | failed | unknown | cover-ok | cover-failed | error
	Solver  string
	TimeS   float64
	Output  string
	Model   map[string]string
	Known   string // matched known finding text
	SMTSize int
	Tried   []string
	Short   bool // listed known finding: decide with a short budget
}

// VC is the verification condition context of one function under contract (or one lemma).
type VC struct {
	split  bool // decide at-call assertions and postconditions path by path (option split)
	splitMax int
	Name   string
	ss     *Sorts
	nodes  []*Node
	consts map[string]string // name -> sort
	corder []string
	funs   map[string]string // name -> full declaration line
	forder []string
	axioms []string          // global assumptions (instances of library axioms)
	axset  map[string]bool
	obls   []*Obligation
	fresh  int
	heapSort map[string]string
	notes  []string // imprecision notes (unmodelled constructs)
	notemap map[string]bool
	cellType map[string]types.Type
}

func newVC(name string, ss *Sorts) *VC {
	return &VC{Name: name, ss: ss, consts: map[string]string{}, funs: map[string]string{}, axset: map[string]bool{}, heapSort: map[string]string{}, notemap: map[string]bool{}, cellType: map[string]types.Type{}}
}

func (vc *VC) note(format string, args ...any) {
	s := fmt.Sprintf(format, args...)
	if !vc.notemap[s] {
		vc.notemap[s] = true
		vc.notes = append(vc.notes, s)
	}
}

func (vc *VC) newNode(label string) *Node {
	n := &Node{ID: len(vc.nodes), Label: label}
	vc.nodes = append(vc.nodes, n)
	return n
}

func (vc *VC) link(from, to *Node, cond string, assumes []string) {
	from.Succ = append(from.Succ, &Edge{To: to, Cond: cond, Assumes: assumes})
	to.Preds = append(to.Preds, from)
}

func (vc *VC) declConst(name, sort string) {
	if _, ok := vc.consts[name]; ok {
		return
	}
	vc.consts[name] = sort
	vc.corder = append(vc.corder, name)
}

// freshConst declares a new constant with a readable hint.
func (vc *VC) freshConst(hint, sort string) string {
	vc.fresh++
	name := fmt.Sprintf("%s!%d", mangle(hint), vc.fresh)
	name = "v_" + strings.ReplaceAll(name, "!", "_k")
	vc.declConst(name, sort)
	return name
}

func (vc *VC) declFun(name string, argSorts []string, res string) {
	if _, ok := vc.funs[name]; ok {
		return
	}
	vc.funs[name] = fmt.Sprintf("(declare-fun %s (%s) %s)", name, strings.Join(argSorts, " "), res)
	vc.forder = append(vc.forder, name)
}

func (vc *VC) axiom(f string) {
	if vc.axset[f] {
		return
	}
	// instance axioms are global: one that mentions a quantifier-bound variable outside its binder would be ill-formed
	for id := range identSet(f) {
		if strings.HasPrefix(id, "q_") && !strings.Contains(f, "(("+id+" ") {
			return
		}
	}
	vc.axset[f] = true
	vc.axioms = append(vc.axioms, f)
}

func (n *Node) assume(f string) {
	if f == "true" {
		return
	}
	n.Stmts = append(n.Stmts, Stmt{Kind: stAssume, F: f})
}

func (vc *VC) assert(n *Node, f string, ob *Obligation) {
	ob.node = n
	ob.index = len(n.Stmts)
	ob.vc = vc
	n.Stmts = append(n.Stmts, Stmt{Kind: stAssert, F: f, Ob: ob})
	vc.obls = append(vc.obls, ob)
}

// ---------------------------------------------------------------------------

const prelude = `(declare-sort Str 0)
(declare-datatypes ((Slice 0)) (((mk_Slice (s.arr Int) (s.off Int) (s.len Int) (s.cap Int)))))
(declare-datatypes ((Iface 0)) (((mk_Iface (i.tag Int) (i.val Int)))))
(define-fun nilslice () Slice (mk_Slice 0 0 0 0))
(define-fun niliface () Iface (mk_Iface 0 0))
(declare-fun u_slen (Str) Int)
(declare-fun u_sat (Str Int) Int)
(declare-fun u_scat (Str Str) Str)
(declare-fun u_ssub (Str Int Int) Str)
(declare-fun u_slt (Str Str) Bool)
(define-fun go_div ((x Int) (y Int)) Int (ite (>= x 0) (ite (> y 0) (div x y) (- (div x (- y)))) (ite (> y 0) (- (div (- x) y)) (div (- x) (- y)))))
(define-fun go_rem ((x Int) (y Int)) Int (- x (* y (go_div x y))))
(define-fun go_abs ((x Int)) Int (ite (< x 0) (- x) x))
(define-fun go_min ((x Int) (y Int)) Int (ite (< x y) x y))
(define-fun go_max ((x Int) (y Int)) Int (ite (> x y) x y))
(define-fun go_round ((t Int) (d Int)) Int (ite (<= d 0) t (ite (>= t 0) (let ((r (mod t d))) (ite (< (+ r r) d) (- t r) (+ t (- d r)))) (let ((r (mod (- t) d))) (ite (< (+ r r) d) (- (- (- t) r)) (- (+ (- t) (- d r))))))))
(define-fun go_trunc ((t Int) (d Int)) Int (ite (<= d 0) t (- t (go_rem t d))))
`

// script renders the SMT-LIB script that decides one obligation.
// For a validity obligation the script is unsat iff the obligation holds on every path.
func (vc *VC) script(ob *Obligation, opts scriptOpts) string {
	target := ob.node
	// ancestors of target
	anc := map[*Node]bool{}
	var mark func(n *Node)
	mark = func(n *Node) {
		if anc[n] {
			return
		}
		anc[n] = true
		if c, ok := opts.choice[n]; ok {
			mark(c)
			return
		}
		for _, p := range n.Preds {
			mark(p)
		}
	}
	mark(target)
	// path splitting: at a join with a chosen predecessor only the edge from that predecessor exists
	cut := func(from *Node, e *Edge) bool {
		c, ok := opts.choice[e.To]
		return ok && c != from
	}
	// topological order: nodes were created in an order compatible with edges only
	// approximately, so sort by DFS finishing order from roots.
	var order []*Node
	seen := map[*Node]bool{}
	var dfs func(n *Node)
	dfs = func(n *Node) {
		if seen[n] || !anc[n] {
			return
		}
		seen[n] = true
		for _, e := range n.Succ {
			dfs(e.To)
		}
		order = append(order, n) // post-order: successors first
	}
	var roots []*Node
	for n := range anc {
		if len(n.Preds) == 0 {
			roots = append(roots, n)
		}
	}
	sort.Slice(roots, func(i, j int) bool { return roots[i].ID < roots[j].ID })
	for _, r := range roots {
		dfs(r)
	}
	// relevance pruning: drop assumptions that share no program constant (transitively) with the goal.
	// Dropping hypotheses is sound for validity; it keeps scripts of long functions small.
	relevant := func(string) bool { return true }
	if !opts.noPrune {
		var facts []string
		for _, n := range order {
			last := len(n.Stmts) - 1
			if n == target {
				last = ob.index - 1
			}
			for i := 0; i <= last; i++ {
				facts = append(facts, n.Stmts[i].F)
			}
			for _, e := range n.Succ {
				if anc[e.To] && !cut(n, e) {
					facts = append(facts, e.Cond)
					facts = append(facts, e.Assumes...)
				}
			}
		}
		facts = append(facts, vc.axioms...)
		rel := map[string]bool{}
		for id := range constIdents(target.Stmts[ob.index].F) {
			rel[id] = true
		}
		idsOf := make([]map[string]bool, len(facts))
		for i, f := range facts {
			idsOf[i] = constIdents(f)
			if opts.pruneAlloc {
				for id := range idsOf[i] {
					if strings.Contains(id, "alloc") {
						delete(idsOf[i], id)
					}
				}
			}
		}
		used := make([]bool, len(facts))
		round := 0
		for changed := true; changed; {
			changed = false
			round++
			if opts.rounds > 0 && round > opts.rounds {
				break
			}
			// breadth-first: facts hit in this round only contribute their symbols for the next round
			var newIDs []string
			for i := range facts {
				if used[i] {
					continue
				}
				hit := false
				for id := range idsOf[i] {
					if rel[id] {
						hit = true
						break
					}
				}
				if hit {
					used[i] = true
					changed = true
					for id := range idsOf[i] {
						newIDs = append(newIDs, id)
					}
				}
			}
			for _, id := range newIDs {
				rel[id] = true
			}
		}
		keep := map[string]bool{}
		for i, f := range facts {
			if used[i] || len(idsOf[i]) == 0 {
				keep[f] = true
			}
		}
		relevant = func(f string) bool { return keep[f] }
	}
	var body strings.Builder
	for _, n := range order {
		// build wp backwards through the statements
		var post string
		if n == target {
			post = "" // filled at the target statement
		} else {
			var conj []string
			for _, e := range n.Succ {
				if !anc[e.To] || cut(n, e) {
					continue
				}
				inner := fmt.Sprintf("ok_%d", e.To.ID)
				var parts []string
				for _, a := range append([]string{e.Cond}, e.Assumes...) {
					if relevant(a) {
						parts = append(parts, a)
					}
				}
				as := mkAnd(parts...)
				conj = append(conj, mkImp(as, inner))
			}
			post = mkAnd(conj...)
		}
		last := len(n.Stmts) - 1
		if n == target {
			last = ob.index
		}
		for i := last; i >= 0; i-- {
			st := n.Stmts[i]
			if n == target && i == ob.index {
				if ob.Expect == "sat" {
					post = "false"
				} else {
					post = st.F
				}
				continue
			}
			// every other statement (assume, or assert proved separately) is assumed
			if st.Kind == stAssert && st.Ob != nil && st.Ob.Expect == "sat" {
				continue // cover points assume nothing
			}
			if relevant(st.F) {
				post = mkImp(st.F, post)
			}
		}
		fmt.Fprintf(&body, "(define-fun ok_%d () Bool %s)\n", n.ID, post)
	}
	var goal strings.Builder
	var rootOK []string
	for _, r := range roots {
		rootOK = append(rootOK, fmt.Sprintf("ok_%d", r.ID))
	}
	fmt.Fprintf(&goal, "(assert (not %s))\n", mkAnd(rootOK...))

	text := body.String() + goal.String()
	axtext := strings.Join(vc.axioms, "\n")
	// declarations: only what is used (keeps scripts small and cvc5 happy)
	all := text + "\n" + axtext
	var out strings.Builder
	if opts.cvc5 {
		out.WriteString("(set-option :produce-models true)\n(set-logic ALL)\n")
	} else {
		out.WriteString("(set-option :produce-models true)\n")
		if opts.seed != 0 {
			fmt.Fprintf(&out, "(set-option :smt.random_seed %d)\n(set-option :sat.random_seed %d)\n", opts.seed, opts.seed)
		}
	}
	out.WriteString(prelude)
	// string literals
	usedIdent := identSet(all)
	// fixpoint: function declarations and axioms may mention further sorts; datatypes by sort name
	var fdecl strings.Builder
	for _, f := range vc.forder {
		if usedIdent[f] {
			fdecl.WriteString(vc.funs[f])
			fdecl.WriteString("\n")
		}
	}
	var cdecl strings.Builder
	var modelVars []string
	for _, c := range vc.corder {
		if usedIdent[c] {
			fmt.Fprintf(&cdecl, "(declare-const %s %s)\n", c, vc.consts[c])
			modelVars = append(modelVars, c)
		}
	}
	declText := fdecl.String() + cdecl.String()
	usedAll := identSet(all + declText)
	// close datatype usage transitively handled by datatypeDecls
	out.WriteString(vc.ss.datatypeDecls(func(name string) bool { return usedAll[name] || usedAll["mk_"+name] || accessorUsed(vc.ss, name, usedAll) }))
	// string literal constants
	var lits []string
	strs := append([]string{}, vc.ss.strList...)
	sort.Strings(strs)
	for _, v := range strs {
		c := vc.ss.strLits[v]
		if usedAll[c] || v == "" {
			lits = append(lits, c)
			fmt.Fprintf(&out, "(declare-const %s Str) ; %q\n(assert (= (u_slen %s) %d))\n", c, trunc(v, 60), c, len(v))
			if len(v) > 0 && len(v) <= 4 {
				for j := 0; j < len(v); j++ {
					fmt.Fprintf(&out, "(assert (= (u_sat %s %d) %d))\n", c, j, v[j])
				}
			}
		}
	}
	if len(lits) > 1 {
		fmt.Fprintf(&out, "(assert (distinct %s))\n", strings.Join(lits, " "))
	}
	out.WriteString("(assert (forall ((s Str)) (! (>= (u_slen s) 0) :pattern ((u_slen s)))))\n")
	out.WriteString(declText)
	if axtext != "" {
		for _, a := range vc.axioms {
			if axiomRelevant(a, usedAll) && relevant(a) {
				if inst, ok := vc.heapInstances(a, usedAll, all); ok {
					for _, ia := range inst {
						fmt.Fprintf(&out, "(assert %s)\n", ia)
					}
					continue
				}
				fmt.Fprintf(&out, "(assert %s)\n", a)
			}
		}
	}
	if opts.cvc5 {
		// cvc5 accepts (as const ...) only over values: name the zero arrays whose element mentions a string constant
		sofar := out.String()
		out.Reset()
		decls, rewritten := cvc5ConstArrays(sofar + text)
		// declarations must precede their first use: put them right after the string literal block
		cut := strings.Index(rewritten, "(assert (forall ((s Str)) (! (>= (u_slen s) 0)")
		if cut < 0 || decls == "" {
			out.WriteString(rewritten)
		} else {
			// the zero arrays mention datatype sorts and string constants only, all declared before this point
			out.WriteString(rewritten[:cut])
			out.WriteString(decls)
			out.WriteString(rewritten[cut:])
		}
	} else {
		out.WriteString(text)
	}
	out.WriteString("(check-sat)\n")
	if opts.model && len(modelVars) > 0 {
		if len(modelVars) > 400 {
			modelVars = modelVars[:400]
		}
		modelVars = append(modelVars, lits...)
		fmt.Fprintf(&out, "(get-value (%s))\n", strings.Join(modelVars, " "))
	}
	return out.String()
}

// pathChoices splits the paths that reach an obligation at the joins nearest to it: each choice maps some join nodes
// to the single predecessor kept. The obligation holds iff it holds under every choice (together they cover all paths).
func (vc *VC) pathChoices(ob *Obligation, max int) []map[*Node]*Node {
	choices := []map[*Node]*Node{{}}
	for {
		progressed := false
		var next []map[*Node]*Node
		for _, ch := range choices {
			// nearest unsplit join (breadth-first, backwards from the target, following the choices made so far)
			var join *Node
			seen := map[*Node]bool{ob.node: true}
			queue := []*Node{ob.node}
			for len(queue) > 0 && join == nil {
				n := queue[0]
				queue = queue[1:]
				if c, ok := ch[n]; ok {
					if !seen[c] {
						seen[c] = true
						queue = append(queue, c)
					}
					continue
				}
				distinct := map[*Node]bool{}
				for _, p := range n.Preds {
					distinct[p] = true
				}
				if len(distinct) > 1 {
					join = n
					break
				}
				for _, p := range n.Preds {
					if !seen[p] {
						seen[p] = true
						queue = append(queue, p)
					}
				}
			}
			if join == nil {
				next = append(next, ch)
				continue
			}
			distinct := map[*Node]bool{}
			var preds []*Node
			for _, p := range join.Preds {
				if !distinct[p] {
					distinct[p] = true
					preds = append(preds, p)
				}
			}
			if len(choices)-1+len(preds)+len(next) > max {
				next = append(next, ch)
				continue
			}
			progressed = true
			for _, p := range preds {
				c2 := map[*Node]*Node{}
				for k, v := range ch {
					c2[k] = v
				}
				c2[join] = p
				next = append(next, c2)
			}
		}
		choices = next
		if !progressed || len(choices) >= max {
			break
		}
	}
	return choices
}

type scriptOpts struct {
	choice map[*Node]*Node // path splitting: the predecessor kept at each listed join
	noPrune bool
	pruneAlloc bool // do not let allocation-counter constants link facts together
	rounds     int  // relevance closure depth (0 = transitive closure)
	cvc5  bool
	model bool
	seed  int
}

func trunc(s string, n int) string {
	s = strings.ReplaceAll(s, "\n", "\\n")
	if len(s) > n {
		return s[:n] + "..."
	}
	return s
}

func accessorUsed(ss *Sorts, name string, used map[string]bool) bool {
	si := ss.byName[name]
	if si == nil {
		return false
	}
	for _, f := range si.fields {
		if used[f.acc] {
			return true
		}
	}
	return false
}

// axiomRelevant keeps an axiom only if every declared function/const symbol it mentions is in use
// (axioms are instantiated per use, so an unused one only slows the solver down).
func axiomRelevant(a string, used map[string]bool) bool {
	for id := range identSet(a) {
		if (strings.HasPrefix(id, "v_") || strings.HasPrefix(id, "uf_") || strings.HasPrefix(id, "H")) && !used[id] {
			return false
		}
	}
	return true
}

func identSet(s string) map[string]bool {
	m := map[string]bool{}
	start := -1
	for i := 0; i <= len(s); i++ {
		var c byte = ' '
		if i < len(s) {
			c = s[i]
		}
		isId := c == '_' || c == '.' || c == '!' || c == '$' || (c >= 'a' && c <= 'z') || (c >= 'A' && c <= 'Z') || (c >= '0' && c <= '9')
		if isId {
			if start < 0 {
				start = i
			}
		} else if start >= 0 {
			m[s[start:i]] = true
			start = -1
		}
	}
	return m
}

// constIdents: program constants (v_...) mentioned in a formula.
func constIdents(s string) map[string]bool {
	m := map[string]bool{}
	for id := range identSet(s) {
		if strings.HasPrefix(id, "v_") {
			m[id] = true
		}
	}
	return m
}

// cvc5ConstArrays replaces every ((as const (Array K E)) Z) whose Z is not a value for cvc5 (it mentions an
// uninterpreted string constant) by a named array constant with the pointwise axiom.
func cvc5ConstArrays(script string) (decls string, out string) {
	const key = "((as const "
	names := map[string]string{}
	var db strings.Builder
	var b strings.Builder
	i := 0
	for {
		j := strings.Index(script[i:], key)
		if j < 0 {
			b.WriteString(script[i:])
			break
		}
		j += i
		// find the end of the whole term: the paren opened at j
		depth, k := 0, j
		for ; k < len(script); k++ {
			if script[k] == '(' {
				depth++
			} else if script[k] == ')' {
				depth--
				if depth == 0 {
					break
				}
			}
		}
		term := script[j : k+1]
		if !strings.Contains(term, "strlit_") {
			b.WriteString(script[i : k+1])
			i = k + 1
			continue
		}
		name, ok := names[term]
		if !ok {
			// sort: between "((as const " and the matching ")"
			d, e := 0, j+len(key)
			for ; e < len(script); e++ {
				if script[e] == '(' {
					d++
				} else if script[e] == ')' {
					if d == 0 {
						break
					}
					d--
				}
			}
			sort := script[j+len(key) : e]
			zero := strings.TrimSpace(script[e+1 : k])
			name = fmt.Sprintf("zarr_%d", len(names))
			names[term] = name
			ks := "Int"
			if strings.HasPrefix(sort, "(Array ") {
				f := strings.Fields(sort[len("(Array "):])
				if len(f) > 0 {
					ks = f[0]
				}
			}
			fmt.Fprintf(&db, "(declare-const %s %s)\n(assert (forall ((zk %s)) (! (= (select %s zk) %s) :pattern ((select %s zk)))))\n", name, sort, ks, name, zero, name)
		}
		b.WriteString(script[i:j])
		b.WriteString(name)
		i = k + 1
	}
	return db.String(), b.String()
}

var heapVarRe = regexp.MustCompile(`(^|[^A-Za-z0-9_.!$])h([^A-Za-z0-9_.!$]|$)`)

// heapInstances: an axiom quantified over a heap variable h (an array of arrays) is stated once per heap constant in
// use instead. The instances say the same for every heap the script can mention; z3's array theory reports a
// quantified array-sorted variable as incomplete and then gives up before deeper instantiation rounds.
// ok=false when the axiom is not of that shape or some application has a heap argument that is not a constant.
func (vc *VC) heapInstances(a string, used map[string]bool, text string) ([]string, bool) {
	const pre = "(forall ((h (Array Int (Array Int "
	if !strings.HasPrefix(a, pre) {
		return nil, false
	}
	// the heap sort: balanced from the '(' after "(h "
	start := len("(forall ((h ")
	depth, end := 0, -1
	for i := start; i < len(a); i++ {
		if a[i] == '(' {
			depth++
		} else if a[i] == ')' {
			depth--
			if depth == 0 {
				end = i
				break
			}
		}
	}
	if end < 0 || end+2 >= len(a) || a[end+1] != ')' {
		return nil, false
	}
	hs := a[start : end+1]
	rest := strings.TrimLeft(a[end+2:], " ") // remaining binders and body
	// functions of the axiom applied to a non-constant heap term: keep the general form
	for id := range identSet(a) {
		if strings.HasPrefix(id, "uf_") && strings.Contains(text, "("+id+" (") {
			return nil, false
		}
	}
	var out []string
	for _, c := range vc.corder {
		if vc.consts[c] != hs || !used[c] {
			continue
		}
		body := heapVarRe.ReplaceAllString(rest, "${1}"+c+"${2}")
		body = heapVarRe.ReplaceAllString(body, "${1}"+c+"${2}") // adjacent occurrences share a delimiter
		out = append(out, "(forall ("+body)
	}
	return out, true
}
