package main

import (
	"fmt"
	"go/types"
	"sort"
	"strings"
)

// The verification-condition graph: an acyclic graph of nodes, each a list of assume/assert
// statements; edges carry a guard and equalities that define join variables (passive form).

type stKind int

const (
	stAssume stKind = iota
	stAssert
)

type Stmt struct {
	Kind stKind
	F    string
	Ob   *Obligation
}

type Edge struct {
	To      *Node
	Cond    string
	Assumes []string
}

type Node struct {
	ID    int
	Label string
	Stmts []Stmt
	Succ  []*Edge
	Preds []*Node
}

type Obligation struct {
	Name   string
	Kind   string // ensures, requires, invariant-init, invariant-pres, decreases, safe, assert, lemma, cover, structural
	Fn     string // function under contract
	Props  []string
	Clause string // contract text
	Pos    string
	Expect string // "" = must be unsat (valid); "sat" = cover (must be satisfiable)
	node   *Node
	index  int
	vc     *VC
	// results
	Status  string // discharged | failed | unknown | cover-ok | cover-failed | error
	Solver  string
	TimeS   float64
	Output  string
	Model   map[string]string
	Known   string // matched known finding text
	SMTSize int
	Tried   []string
	Short   bool // listed known finding: decide with a short budget
}

// VC is the verification condition context of one function under contract (or one lemma).
type VC struct {
	Name   string
	ss     *Sorts
	nodes  []*Node
	consts map[string]string // name -> sort
	corder []string
	funs   map[string]string // name -> full declaration line
	forder []string
	axioms []string          // global assumptions (instances of library axioms)
	axset  map[string]bool
	obls   []*Obligation
	fresh  int
	heapSort map[string]string
	notes  []string // imprecision notes (unmodelled constructs)
	notemap map[string]bool
	cellType map[string]types.Type
}

func newVC(name string, ss *Sorts) *VC {
	return &VC{Name: name, ss: ss, consts: map[string]string{}, funs: map[string]string{}, axset: map[string]bool{}, heapSort: map[string]string{}, notemap: map[string]bool{}, cellType: map[string]types.Type{}}
}

func (vc *VC) note(format string, args ...any) {
	s := fmt.Sprintf(format, args...)
	if !vc.notemap[s] {
		vc.notemap[s] = true
		vc.notes = append(vc.notes, s)
	}
}

func (vc *VC) newNode(label string) *Node {
	n := &Node{ID: len(vc.nodes), Label: label}
	vc.nodes = append(vc.nodes, n)
	return n
}

func (vc *VC) link(from, to *Node, cond string, assumes []string) {
	from.Succ = append(from.Succ, &Edge{To: to, Cond: cond, Assumes: assumes})
	to.Preds = append(to.Preds, from)
}

func (vc *VC) declConst(name, sort string) {
	if _, ok := vc.consts[name]; ok {
		return
	}
	vc.consts[name] = sort
	vc.corder = append(vc.corder, name)
}

// freshConst declares a new constant with a readable hint.
func (vc *VC) freshConst(hint, sort string) string {
	vc.fresh++
	name := fmt.Sprintf("%s!%d", mangle(hint), vc.fresh)
	name = "v_" + strings.ReplaceAll(name, "!", "_k")
	vc.declConst(name, sort)
	return name
}

func (vc *VC) declFun(name string, argSorts []string, res string) {
	if _, ok := vc.funs[name]; ok {
		return
	}
	vc.funs[name] = fmt.Sprintf("(declare-fun %s (%s) %s)", name, strings.Join(argSorts, " "), res)
	vc.forder = append(vc.forder, name)
}

func (vc *VC) axiom(f string) {
	if vc.axset[f] {
		return
	}
	// instance axioms are global: one that mentions a quantifier-bound variable outside its binder would be ill-formed
	for id := range identSet(f) {
		if strings.HasPrefix(id, "q_") && !strings.Contains(f, "(("+id+" ") {
			return
		}
	}
	vc.axset[f] = true
	vc.axioms = append(vc.axioms, f)
}

func (n *Node) assume(f string) {
	if f == "true" {
		return
	}
	n.Stmts = append(n.Stmts, Stmt{Kind: stAssume, F: f})
}

func (vc *VC) assert(n *Node, f string, ob *Obligation) {
	ob.node = n
	ob.index = len(n.Stmts)
	ob.vc = vc
	n.Stmts = append(n.Stmts, Stmt{Kind: stAssert, F: f, Ob: ob})
	vc.obls = append(vc.obls, ob)
}

// ---------------------------------------------------------------------------

const prelude = `(declare-sort Str 0)
(declare-datatypes ((Slice 0)) (((mk_Slice (s.arr Int) (s.off Int) (s.len Int) (s.cap Int)))))
(declare-datatypes ((Iface 0)) (((mk_Iface (i.tag Int) (i.val Int)))))
(define-fun nilslice () Slice (mk_Slice 0 0 0 0))
(define-fun niliface () Iface (mk_Iface 0 0))
(declare-fun u_slen (Str) Int)
(declare-fun u_sat (Str Int) Int)
(declare-fun u_scat (Str Str) Str)
(declare-fun u_ssub (Str Int Int) Str)
(declare-fun u_slt (Str Str) Bool)
(define-fun go_div ((x Int) (y Int)) Int (ite (>= x 0) (ite (> y 0) (div x y) (- (div x (- y)))) (ite (> y 0) (- (div (- x) y)) (div (- x) (- y)))))
(define-fun go_rem ((x Int) (y Int)) Int (- x (* y (go_div x y))))
(define-fun go_abs ((x Int)) Int (ite (< x 0) (- x) x))
(define-fun go_min ((x Int) (y Int)) Int (ite (< x y) x y))
(define-fun go_max ((x Int) (y Int)) Int (ite (> x y) x y))
(define-fun go_round ((t Int) (d Int)) Int (ite (<= d 0) t (ite (>= t 0) (let ((r (mod t d))) (ite (< (+ r r) d) (- t r) (+ t (- d r)))) (let ((r (mod (- t) d))) (ite (< (+ r r) d) (- (- (- t) r)) (- (+ (- t) (- d r))))))))
(define-fun go_trunc ((t Int) (d Int)) Int (ite (<= d 0) t (- t (go_rem t d))))
`

// script renders the SMT-LIB script that decides one obligation.
// For a validity obligation the script is unsat iff the obligation holds on every path.
func (vc *VC) script(ob *Obligation, opts scriptOpts) string {
	target := ob.node
	// ancestors of target
	anc := map[*Node]bool{}
	var mark func(n *Node)
	mark = func(n *Node) {
		if anc[n] {
			return
		}
		anc[n] = true
		for _, p := range n.Preds {
			mark(p)
		}
	}
	mark(target)
	// topological order: nodes were created in an order compatible with edges only
	// approximately, so sort by DFS finishing order from roots.
	var order []*Node
	seen := map[*Node]bool{}
	var dfs func(n *Node)
	dfs = func(n *Node) {
		if seen[n] || !anc[n] {
			return
		}
		seen[n] = true
		for _, e := range n.Succ {
			dfs(e.To)
		}
		order = append(order, n) // post-order: successors first
	}
	var roots []*Node
	for n := range anc {
		if len(n.Preds) == 0 {
			roots = append(roots, n)
		}
	}
	sort.Slice(roots, func(i, j int) bool { return roots[i].ID < roots[j].ID })
	for _, r := range roots {
		dfs(r)
	}
	// relevance pruning: drop assumptions that share no program constant (transitively) with the goal.
	// Dropping hypotheses is sound for validity; it keeps scripts of long functions small.
	relevant := func(string) bool { return true }
	if !opts.noPrune {
		var facts []string
		for _, n := range order {
			last := len(n.Stmts) - 1
			if n == target {
				last = ob.index - 1
			}
			for i := 0; i <= last; i++ {
				facts = append(facts, n.Stmts[i].F)
			}
			for _, e := range n.Succ {
				if anc[e.To] {
					facts = append(facts, e.Cond)
					facts = append(facts, e.Assumes...)
				}
			}
		}
		facts = append(facts, vc.axioms...)
		rel := map[string]bool{}
		for id := range constIdents(target.Stmts[ob.index].F) {
			rel[id] = true
		}
		idsOf := make([]map[string]bool, len(facts))
		for i, f := range facts {
			idsOf[i] = constIdents(f)
			if opts.pruneAlloc {
				for id := range idsOf[i] {
					if strings.Contains(id, "alloc") {
						delete(idsOf[i], id)
					}
				}
			}
		}
		used := make([]bool, len(facts))
		round := 0
		for changed := true; changed; {
			changed = false
			round++
			if opts.rounds > 0 && round > opts.rounds {
				break
			}
			// breadth-first: facts hit in this round only contribute their symbols for the next round
			var newIDs []string
			for i := range facts {
				if used[i] {
					continue
				}
				hit := false
				for id := range idsOf[i] {
					if rel[id] {
						hit = true
						break
					}
				}
				if hit {
					used[i] = true
					changed = true
					for id := range idsOf[i] {
						newIDs = append(newIDs, id)
					}
				}
			}
			for _, id := range newIDs {
				rel[id] = true
			}
		}
		keep := map[string]bool{}
		for i, f := range facts {
			if used[i] || len(idsOf[i]) == 0 {
				keep[f] = true
			}
		}
		relevant = func(f string) bool { return keep[f] }
	}
	var body strings.Builder
	for _, n := range order {
		// build wp backwards through the statements
		var post string
		if n == target {
			post = "" // filled at the target statement
		} else {
			var conj []string
			for _, e := range n.Succ {
				if !anc[e.To] {
					continue
				}
				inner := fmt.Sprintf("ok_%d", e.To.ID)
				var parts []string
				for _, a := range append([]string{e.Cond}, e.Assumes...) {
					if relevant(a) {
						parts = append(parts, a)
					}
				}
				as := mkAnd(parts...)
				conj = append(conj, mkImp(as, inner))
			}
			post = mkAnd(conj...)
		}
		last := len(n.Stmts) - 1
		if n == target {
			last = ob.index
		}
		for i := last; i >= 0; i-- {
			st := n.Stmts[i]
			if n == target && i == ob.index {
				if ob.Expect == "sat" {
					post = "false"
				} else {
					post = st.F
				}
				continue
			}
			// every other statement (assume, or assert proved separately) is assumed
			if st.Kind == stAssert && st.Ob != nil && st.Ob.Expect == "sat" {
				continue // cover points assume nothing
			}
			if relevant(st.F) {
				post = mkImp(st.F, post)
			}
		}
		fmt.Fprintf(&body, "(define-fun ok_%d () Bool %s)\n", n.ID, post)
	}
	var goal strings.Builder
	var rootOK []string
	for _, r := range roots {
		rootOK = append(rootOK, fmt.Sprintf("ok_%d", r.ID))
	}
	fmt.Fprintf(&goal, "(assert (not %s))\n", mkAnd(rootOK...))

	text := body.String() + goal.String()
	axtext := strings.Join(vc.axioms, "\n")
	// declarations: only what is used (keeps scripts small and cvc5 happy)
	all := text + "\n" + axtext
	var out strings.Builder
	if opts.cvc5 {
		out.WriteString("(set-option :produce-models true)\n(set-logic ALL)\n")
	} else {
		out.WriteString("(set-option :produce-models true)\n")
		if opts.seed != 0 {
			fmt.Fprintf(&out, "(set-option :smt.random_seed %d)\n(set-option :sat.random_seed %d)\n", opts.seed, opts.seed)
		}
	}
	out.WriteString(prelude)
	// string literals
	usedIdent := identSet(all)
	// fixpoint: function declarations and axioms may mention further sorts; datatypes by sort name
	var fdecl strings.Builder
	for _, f := range vc.forder {
		if usedIdent[f] {
			fdecl.WriteString(vc.funs[f])
			fdecl.WriteString("\n")
		}
	}
	var cdecl strings.Builder
	var modelVars []string
	for _, c := range vc.corder {
		if usedIdent[c] {
			fmt.Fprintf(&cdecl, "(declare-const %s %s)\n", c, vc.consts[c])
			modelVars = append(modelVars, c)
		}
	}
	declText := fdecl.String() + cdecl.String()
	usedAll := identSet(all + declText)
	// close datatype usage transitively handled by datatypeDecls
	out.WriteString(vc.ss.datatypeDecls(func(name string) bool { return usedAll[name] || usedAll["mk_"+name] || accessorUsed(vc.ss, name, usedAll) }))
	// string literal constants
	var lits []string
	strs := append([]string{}, vc.ss.strList...)
	sort.Strings(strs)
	for _, v := range strs {
		c := vc.ss.strLits[v]
		if usedAll[c] || v == "" {
			lits = append(lits, c)
			fmt.Fprintf(&out, "(declare-const %s Str) ; %q\n(assert (= (u_slen %s) %d))\n", c, trunc(v, 60), c, len(v))
			if len(v) > 0 && len(v) <= 4 {
				for j := 0; j < len(v); j++ {
					fmt.Fprintf(&out, "(assert (= (u_sat %s %d) %d))\n", c, j, v[j])
				}
			}
		}
	}
	if len(lits) > 1 {
		fmt.Fprintf(&out, "(assert (distinct %s))\n", strings.Join(lits, " "))
	}
	out.WriteString("(assert (forall ((s Str)) (! (>= (u_slen s) 0) :pattern ((u_slen s)))))\n")
	out.WriteString(declText)
	if axtext != "" {
		for _, a := range vc.axioms {
			if axiomRelevant(a, usedAll) && relevant(a) {
				fmt.Fprintf(&out, "(assert %s)\n", a)
			}
		}
	}
	out.WriteString(text)
	out.WriteString("(check-sat)\n")
	if opts.model && len(modelVars) > 0 {
		if len(modelVars) > 400 {
			modelVars = modelVars[:400]
		}
		modelVars = append(modelVars, lits...)
		fmt.Fprintf(&out, "(get-value (%s))\n", strings.Join(modelVars, " "))
	}
	return out.String()
}

type scriptOpts struct {
	noPrune bool
	pruneAlloc bool // do not let allocation-counter constants link facts together
	rounds     int  // relevance closure depth (0 = transitive closure)
	cvc5  bool
	model bool
	seed  int
}

func trunc(s string, n int) string {
	s = strings.ReplaceAll(s, "\n", "\\n")
	if len(s) > n {
		return s[:n] + "..."
	}
	return s
}

func accessorUsed(ss *Sorts, name string, used map[string]bool) bool {
	si := ss.byName[name]
	if si == nil {
		return false
	}
	for _, f := range si.fields {
		if used[f.acc] {
			return true
		}
	}
	return false
}

// axiomRelevant keeps an axiom only if every declared function/const symbol it mentions is in use
// (axioms are instantiated per use, so an unused one only slows the solver down).
func axiomRelevant(a string, used map[string]bool) bool {
	for id := range identSet(a) {
		if (strings.HasPrefix(id, "v_") || strings.HasPrefix(id, "uf_") || strings.HasPrefix(id, "H")) && !used[id] {
			return false
		}
	}
	return true
}

func identSet(s string) map[string]bool {
	m := map[string]bool{}
	start := -1
	for i := 0; i <= len(s); i++ {
		var c byte = ' '
		if i < len(s) {
			c = s[i]
		}
		isId := c == '_' || c == '.' || c == '!' || c == '$' || (c >= 'a' && c <= 'z') || (c >= 'A' && c <= 'Z') || (c >= '0' && c <= '9')
		if isId {
			if start < 0 {
				start = i
			}
		} else if start >= 0 {
			m[s[start:i]] = true
			start = -1
		}
	}
	return m
}

// constIdents: program constants (v_...) mentioned in a formula.
func constIdents(s string) map[string]bool {
	m := map[string]bool{}
	for id := range identSet(s) {
		if strings.HasPrefix(id, "v_") {
			m[id] = true
		}
	}
	return m
}
