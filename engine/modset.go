package main

import (
	"go/token"
	"go/types"
	"sort"
	"strings"

	"golang.org/x/tools/go/ssa"
)

// Heap variable naming (shared by the executor and the write-set analysis).

func (p *Program) heapFieldName(t types.Type, fi int) string {
	si := p.ss.structInfoOf(t)
	fname := si.fields[fi].acc[len(si.name)+1:]
	name := "Hf." + si.name + "." + fname
	if _, ok := p.heapSorts[name]; !ok {
		p.heapSorts[name] = "(Array Int " + si.fields[fi].sort + ")"
		p.heapElemType[name] = si.fields[fi].typ
	}
	return name
}

func (p *Program) heapElemName(elem types.Type) string {
	name := "HA." + elemKey(p.ss, elem)
	if _, ok := p.heapSorts[name]; !ok {
		p.heapSorts[name] = "(Array Int (Array Int " + p.ss.sortOf(elem) + "))"
		p.heapElemType[name] = elem
	}
	return name
}

func (p *Program) heapPtrName(t types.Type) string {
	name := "Hp." + elemKey(p.ss, t)
	if _, ok := p.heapSorts[name]; !ok {
		p.heapSorts[name] = "(Array Int " + p.ss.sortOf(t) + ")"
		p.heapElemType[name] = t
	}
	return name
}

func (p *Program) heapMapNames(m *types.Map) (string, string) {
	k := elemKey(p.ss, m.Key()) + "." + elemKey(p.ss, m.Elem())
	dom, val := "HMd."+k, "HMv."+k
	if _, ok := p.heapSorts[dom]; !ok {
		ks, vs := p.ss.sortOf(m.Key()), p.ss.sortOf(m.Elem())
		p.heapSorts[dom] = "(Array Int (Array " + ks + " Bool))"
		p.heapSorts[val] = "(Array Int (Array " + ks + " " + vs + "))"
	}
	return dom, val
}

func (p *Program) globalName(g *ssa.Global) string {
	name := "G." + g.Pkg.Pkg.Name() + "." + g.Name()
	if _, ok := p.heapSorts[name]; !ok {
		p.heapSorts[name] = p.ss.sortOf(deref(g.Type()))
	}
	return name
}

// pointeeHeaps: heap variables written by a store of a whole value of type t through a pointer.
func (p *Program) pointeeHeaps(t types.Type) []string {
	switch u := types.Unalias(t).Underlying().(type) {
	case *types.Struct:
		if isTimeTime(t) {
			return []string{p.heapPtrName(t)}
		}
		var out []string
		for i := 0; i < u.NumFields(); i++ {
			out = append(out, p.heapFieldName(t, i))
		}
		return out
	case *types.Array:
		return []string{p.heapElemName(u.Elem())}
	}
	return []string{p.heapPtrName(t)}
}

type directInfo struct {
	heaps   map[string]bool
	fresh   map[string]bool // heaps touched only at objects allocated by the function itself
	readsRefGlobal bool     // loads a package-level variable that holds references
	callees []*ssa.Function
	sigs    []*types.Signature
	ownFresh func(ssa.Value) bool // the slice value can only refer to an array allocated by this activation
}

type fieldKey struct {
	a *ssa.Alloc
	f int
}

// ownedObject: the allocation is only accessed field by field (loads and stores), assigned as a whole from a composite
// literal temporary, and otherwise only handed out by returning it (directly or through the result variable): no other
// code can have stored into its fields while this activation runs.
func ownedObject(a *ssa.Alloc) bool {
	if a.Referrers() == nil {
		return false
	}
	for _, r := range *a.Referrers() {
		switch r := r.(type) {
		case *ssa.FieldAddr:
			if !fieldAddrLocalUse(r) {
				return false
			}
		case *ssa.Store:
			if r.Addr == a {
				// whole-struct assignment: only from a composite literal temporary (checked per field by wholeStoreSources)
				if _, ok := complitSource(r.Val); !ok {
					return false
				}
				continue
			}
			// the pointer is put into a local variable that is only read back to be returned
			d, ok := r.Addr.(*ssa.Alloc)
			if !ok || d.Heap || d.Referrers() == nil {
				return false
			}
			for _, dr := range *d.Referrers() {
				switch dr := dr.(type) {
				case *ssa.Store:
					if dr.Addr != d {
						return false
					}
				case *ssa.UnOp:
					if dr.Referrers() == nil {
						return false
					}
					for _, lr := range *dr.Referrers() {
						switch lr.(type) {
						case *ssa.Return, *ssa.DebugRef:
						default:
							return false
						}
					}
				case *ssa.DebugRef:
				default:
					return false
				}
			}
		case *ssa.Return, *ssa.DebugRef:
		default:
			return false
		}
	}
	return true
}

func fieldAddrLocalUse(r *ssa.FieldAddr) bool {
	if r.Referrers() == nil {
		return false
	}
	for _, rr := range *r.Referrers() {
		switch rr := rr.(type) {
		case *ssa.Store:
			if rr.Addr != r {
				return false
			}
		case *ssa.UnOp, *ssa.DebugRef:
		default:
			return false
		}
	}
	return true
}

// complitSource: the value is the contents of a local composite-literal temporary that is only written field by field
// and read once as a whole.
func complitSource(v ssa.Value) (*ssa.Alloc, bool) {
	u, ok := v.(*ssa.UnOp)
	if !ok || u.Op != token.MUL {
		return nil, false
	}
	c, ok := u.X.(*ssa.Alloc)
	if !ok || c.Heap || c.Referrers() == nil {
		return nil, false
	}
	for _, r := range *c.Referrers() {
		switch r := r.(type) {
		case *ssa.FieldAddr:
			if !fieldAddrLocalUse(r) {
				return nil, false
			}
		case *ssa.UnOp, *ssa.DebugRef:
		default:
			return nil, false
		}
	}
	return c, true
}

// ownFreshSlices: a slice value refers to an array allocated by this activation when it is nil, a make, an append /
// reslice of such a value, or the contents of a non-escaping local all of whose assignments are such values.
func ownFreshSlices(fn *ssa.Function, fr *Frame) func(ssa.Value) bool {
	stores := map[*ssa.Alloc][]ssa.Value{}
	fieldStores := map[fieldKey][]ssa.Value{}
	for _, b := range fn.Blocks {
		for _, in := range b.Instrs {
			if st, ok := in.(*ssa.Store); ok {
				if a, ok := st.Addr.(*ssa.Alloc); ok {
					stores[a] = append(stores[a], st.Val)
				}
				if fa, ok := st.Addr.(*ssa.FieldAddr); ok {
					if a, ok := fa.X.(*ssa.Alloc); ok {
						fieldStores[fieldKey{a, fa.Field}] = append(fieldStores[fieldKey{a, fa.Field}], st.Val)
					}
				}
			}
		}
	}
	// greatest fixed point: start from "fresh" for every candidate and strike out until stable
	state := map[ssa.Value]bool{}
	get := func(v ssa.Value) bool {
		if c, isC := v.(*ssa.Const); isC {
			return c.IsNil()
		}
		return state[v]
	}
	rule := func(v ssa.Value) bool {
		switch v := v.(type) {
		case *ssa.MakeSlice, *ssa.MakeMap:
			return true
		case *ssa.Slice:
			if _, isSl := types.Unalias(v.X.Type()).Underlying().(*types.Slice); isSl {
				return get(v.X)
			}
		case *ssa.Phi:
			for _, e := range v.Edges {
				if !get(e) {
					return false
				}
			}
			return true
		case *ssa.Call:
			if b, isB := v.Call.Value.(*ssa.Builtin); isB && b.Name() == "append" && len(v.Call.Args) > 0 {
				return get(v.Call.Args[0])
			}
		case *ssa.UnOp:
			if fa, isF := v.X.(*ssa.FieldAddr); isF && v.Op == token.MUL {
				// a slice / map kept in a field of an object this activation allocated and only hands out by returning it
				if a, isA := fa.X.(*ssa.Alloc); isA && ownedObject(a) {
					for _, sv := range fieldStores[fieldKey{a, fa.Field}] {
						if !get(sv) {
							return false
						}
					}
					// whole-struct assignments from composite literal temporaries: the field's value there
					for _, r := range *a.Referrers() {
						if st, isSt := r.(*ssa.Store); isSt && st.Addr == a {
							c, ok := complitSource(st.Val)
							if !ok {
								return false
							}
							for _, sv := range fieldStores[fieldKey{c, fa.Field}] {
								if !get(sv) {
									return false
								}
							}
						}
					}
					return true
				}
				return false
			}
			if a, isA := v.X.(*ssa.Alloc); isA && v.Op == token.MUL && fr.isCell[a] {
				_, isSl := types.Unalias(deref(a.Type())).Underlying().(*types.Slice)
				_, isMp := types.Unalias(deref(a.Type())).Underlying().(*types.Map)
				if isSl || isMp {
					for _, sv := range stores[a] {
						if !get(sv) {
							return false
						}
					}
					return true
				}
			}
		}
		return false
	}
	var cands []ssa.Value
	for _, b := range fn.Blocks {
		for _, in := range b.Instrs {
			if v, isV := in.(ssa.Value); isV {
				_, isSl := types.Unalias(v.Type()).Underlying().(*types.Slice)
				_, isMp := types.Unalias(v.Type()).Underlying().(*types.Map)
				if isSl || isMp {
					cands = append(cands, v)
					state[v] = true
				}
			}
		}
	}
	for changed := true; changed; {
		changed = false
		for _, v := range cands {
			if state[v] && !rule(v) {
				state[v] = false
				changed = true
			}
		}
	}
	return get
}

// addrRoot resolves the root of an address expression: either a local alloc (possibly escaping) or heap names.
func (p *Program) addrRoot(v ssa.Value) (alloc *ssa.Alloc, heaps []string) {
	switch v := v.(type) {
	case *ssa.Alloc:
		return v, nil
	case *ssa.Phi:
		for _, e := range v.Edges {
			if a, ok := e.(*ssa.Alloc); ok {
				return a, nil
			}
		}
	case *ssa.Global:
		return nil, []string{p.globalName(v)}
	case *ssa.FieldAddr:
		a, hs := p.addrRoot(v.X)
		if a != nil || (hs != nil && !isPtrValue(v.X)) {
			return a, hs
		}
		st := deref(v.X.Type())
		if isTimeTime(st) {
			return nil, []string{p.heapPtrName(st)}
		}
		return nil, []string{p.heapFieldName(st, v.Field)}
	case *ssa.IndexAddr:
		switch u := types.Unalias(v.X.Type()).Underlying().(type) {
		case *types.Slice:
			return nil, []string{p.heapElemName(u.Elem())}
		case *types.Pointer:
			a, hs := p.addrRoot(v.X)
			if a != nil {
				if _, isArr := deref(a.Type()).Underlying().(*types.Array); isArr && a.Heap {
					return nil, []string{p.heapElemName(u.Elem().Underlying().(*types.Array).Elem())}
				}
				return a, nil
			}
			if hs != nil && !isPtrValue(v.X) {
				return nil, hs
			}
			return nil, []string{p.heapElemName(u.Elem().Underlying().(*types.Array).Elem())}
		}
	}
	return nil, p.pointeeHeaps(deref(v.Type()))
}

// isPtrValue: v is a pointer obtained as a value (load, call, parameter), not an address computation.
func isPtrValue(v ssa.Value) bool {
	switch v.(type) {
	case *ssa.FieldAddr, *ssa.IndexAddr, *ssa.Alloc, *ssa.Global:
		return false
	}
	return true
}

// rootAlloc: the Alloc an address expression is rooted at (through field / index addressing), if any.
func rootAlloc(v ssa.Value) *ssa.Alloc {
	for {
		switch t := v.(type) {
		case *ssa.Alloc:
			return t
		case *ssa.FieldAddr:
			v = t.X
		case *ssa.IndexAddr:
			if _, isSlice := types.Unalias(t.X.Type()).Underlying().(*types.Slice); isSlice {
				return nil
			}
			v = t.X
		default:
			return nil
		}
	}
}

func (p *Program) direct(fn *ssa.Function) *directInfo {
	if d, ok := p.directCache[fn]; ok {
		return d
	}
	d := &directInfo{heaps: map[string]bool{}, fresh: map[string]bool{}}
	p.directCache[fn] = d
	addFresh := func(hs []string) {
		for _, h := range hs {
			d.fresh[h] = true
		}
	}
	fr := &Frame{fn: fn}
	fr.classifyAllocs()
	d.ownFresh = ownFreshSlices(fn, fr)
	add := func(hs []string) {
		for _, h := range hs {
			d.heaps[h] = true
		}
	}
	for _, b := range fn.Blocks {
		for _, in := range b.Instrs {
			switch in := in.(type) {
			case *ssa.Store:
				a, hs := p.addrRoot(in.Addr)
				if a != nil {
					if !fr.isCell[a] {
						// escaping local: a heap object allocated by this activation
						_, hs2 := p.addrRootHeap(in.Addr)
						addFresh(hs2)
					}
				} else if ra := rootAlloc(in.Addr); ra != nil && !fr.isCell[ra] {
					addFresh(hs)
				} else {
					add(hs)
				}
			case *ssa.Alloc:
				if !fr.isCell[in] {
					addFresh(p.pointeeHeaps(deref(in.Type())))
				}
			case *ssa.MapUpdate:
				if mt, ok := types.Unalias(in.Map.Type()).Underlying().(*types.Map); ok {
					dn, vn := p.heapMapNames(mt)
					if _, isNew := in.Map.(*ssa.MakeMap); isNew || d.ownFresh(in.Map) {
						addFresh([]string{dn, vn})
					} else {
						add([]string{dn, vn})
					}
				}
			case *ssa.MakeMap:
				mt := types.Unalias(in.Type()).Underlying().(*types.Map)
				dn, vn := p.heapMapNames(mt)
				addFresh([]string{dn, vn})
			case *ssa.MakeSlice:
				addFresh([]string{p.heapElemName(types.Unalias(in.Type()).Underlying().(*types.Slice).Elem())})
			case *ssa.MakeClosure:
				d.callees = append(d.callees, in.Fn.(*ssa.Function))
			case ssa.CallInstruction:
				p.directCall(d, in.Common(), add)
			case *ssa.UnOp:
				if g, ok := in.X.(*ssa.Global); ok && !valueOnlyType(deref(g.Type()), 0) {
					d.readsRefGlobal = true
				}
			}
		}
	}
	return d
}

// valueOnlyType: values of the type contain no reference to mutable shared memory (no pointers, slices, maps,
// channels, functions or interfaces).
func valueOnlyType(t types.Type, depth int) bool {
	if depth > 4 {
		return false
	}
	switch u := types.Unalias(t).Underlying().(type) {
	case *types.Basic:
		return u.Kind() != types.UnsafePointer
	case *types.Struct:
		for i := 0; i < u.NumFields(); i++ {
			if !valueOnlyType(u.Field(i).Type(), depth+1) {
				return false
			}
		}
		return true
	case *types.Array:
		return valueOnlyType(u.Elem(), depth+1)
	}
	return false
}

// addrRootHeap: like addrRoot but treating allocs as heap objects.
func (p *Program) addrRootHeap(v ssa.Value) (*ssa.Alloc, []string) {
	switch v := v.(type) {
	case *ssa.Alloc:
		return nil, p.pointeeHeaps(deref(v.Type()))
	case *ssa.FieldAddr:
		if _, ok := v.X.(*ssa.Alloc); ok {
			st := deref(v.X.Type())
			return nil, []string{p.heapFieldName(st, v.Field)}
		}
		return p.addrRootHeap(v.X)
	case *ssa.IndexAddr:
		return p.addrRootHeap(v.X)
	}
	_, hs := p.addrRoot(v)
	return nil, hs
}

func (p *Program) directCall(d *directInfo, c *ssa.CallCommon, add func([]string)) {
	if b, ok := c.Value.(*ssa.Builtin); ok && !c.IsInvoke() {
		switch b.Name() {
		case "append", "copy":
			if sl, ok := types.Unalias(c.Args[0].Type()).Underlying().(*types.Slice); ok {
				if d.ownFresh != nil && d.ownFresh(c.Args[0]) {
					// the destination is a slice this activation built itself (make / nil / its own appends):
					// only cells of arrays allocated by this activation are written
					d.fresh[p.heapElemName(sl.Elem())] = true
				} else {
					add([]string{p.heapElemName(sl.Elem())})
				}
			}
		case "delete", "clear":
			if mt, ok := types.Unalias(c.Args[0].Type()).Underlying().(*types.Map); ok {
				dn, vn := p.heapMapNames(mt)
				add([]string{dn, vn})
			}
		}
		return
	}
	if c.IsInvoke() {
		impls := p.implementations(c.Value.Type(), c.Method.Name())
		d.callees = append(d.callees, impls...)
		add(p.externalMods(c.Signature(), c.Args))
		return
	}
	if callee := c.StaticCallee(); callee != nil {
		if p.isPint(callee) && len(callee.Blocks) > 0 {
			d.callees = append(d.callees, callee)
			return
		}
		name := calleeName(callee)
		if _, ok := specTable[name]; ok {
			if m, ok := specMods[name]; ok {
				add(m(p, c))
			}
			return
		}
		if pureExternal(name) {
			return
		}
		add(p.externalMods(callee.Signature, c.Args))
		return
	}
	d.sigs = append(d.sigs, c.Signature())
}

// externalMods: what a function outside pint may write, judged by its argument types (assumption A6):
// the objects directly passed by pointer, slice or map, one level deep.
func (p *Program) externalMods(sig *types.Signature, args []ssa.Value) []string {
	set := map[string]bool{}
	for _, a := range args {
		p.typeMods(a.Type(), set, 0)
	}
	return sortedSet(set)
}

func (p *Program) typeMods(t types.Type, set map[string]bool, depth int) {
	if depth > 1 {
		return
	}
	switch u := types.Unalias(t).Underlying().(type) {
	case *types.Pointer:
		for _, h := range p.pointeeHeaps(u.Elem()) {
			set[h] = true
		}
		if st, ok := u.Elem().Underlying().(*types.Struct); ok && !isTimeTime(u.Elem()) {
			for i := 0; i < st.NumFields(); i++ {
				p.typeMods(st.Field(i).Type(), set, depth+1)
			}
		}
	case *types.Slice:
		set[p.heapElemName(u.Elem())] = true
	case *types.Map:
		dn, vn := p.heapMapNames(u)
		set[dn] = true
		set[vn] = true
	}
}

func sortedSet(m map[string]bool) []string {
	out := make([]string, 0, len(m))
	for k := range m {
		out = append(out, k)
	}
	sort.Strings(out)
	return out
}

// modHeapsList: transitive heap write set of a pint function (objects that existed before the call).
func (p *Program) modHeapsList(fn *ssa.Function) []string {
	w, _ := p.modSets(fn)
	return w
}

// modFreshList: heaps in which the function only touches objects it allocated itself.
func (p *Program) modFreshList(fn *ssa.Function) []string {
	_, f := p.modSets(fn)
	return f
}

func (p *Program) modSets(fn *ssa.Function) ([]string, []string) {
	if m, ok := p.modCache[fn]; ok {
		return m, p.freshCache[fn]
	}
	set := map[string]bool{}
	fresh := map[string]bool{}
	seen := map[*ssa.Function]bool{}
	var sigs []*types.Signature
	var visit func(f *ssa.Function)
	visit = func(f *ssa.Function) {
		if seen[f] {
			return
		}
		seen[f] = true
		d := p.direct(f)
		for h := range d.heaps {
			set[h] = true
		}
		for h := range d.fresh {
			fresh[h] = true
		}
		sigs = append(sigs, d.sigs...)
		for _, c := range d.callees {
			visit(c)
		}
	}
	visit(fn)
	// dynamic calls: every address-taken pint function with an identical signature
	for changed := true; changed; {
		changed = false
		for _, s := range sigs {
			for f := range p.addrTaken {
				if !seen[f] && p.isPint(f) && types.Identical(f.Signature, s) {
					n := len(sigs)
					visit(f)
					if len(sigs) > n {
						changed = true
					}
				}
			}
		}
	}
	// a function that receives no references and reads no reference-holding global can only write objects that
	// it (or its callees) allocated: all its writes are allocation-only effects
	isolated := fn.Signature.Recv() == nil && len(fn.FreeVars) == 0 && len(sigs) == 0
	for i := 0; isolated && i < fn.Signature.Params().Len(); i++ {
		if !valueOnlyType(fn.Signature.Params().At(i).Type(), 0) {
			isolated = false
		}
	}
	if isolated {
		for f := range seen {
			if p.direct(f).readsRefGlobal {
				isolated = false
			}
		}
	}
	if isolated {
		for h := range set {
			if !strings.HasPrefix(h, "G.") {
				fresh[h] = true
				delete(set, h)
			}
		}
		p.isolated[fn] = true
	}
	out := sortedSet(set)
	for h := range set {
		delete(fresh, h)
	}
	p.modCache[fn] = out
	p.freshCache[fn] = sortedSet(fresh)
	return out, p.freshCache[fn]
}

func (p *Program) dynCallMods(sig *types.Signature) []string {
	set := map[string]bool{}
	for f := range p.addrTaken {
		if p.isPint(f) && types.Identical(f.Signature, sig) {
			for _, h := range p.modHeapsList(f) {
				set[h] = true
			}
		}
	}
	return sortedSet(set)
}

func (p *Program) invokeMods(c *ssa.CallCommon) []string {
	set := map[string]bool{}
	for _, f := range p.implementations(c.Value.Type(), c.Method.Name()) {
		for _, h := range p.modHeapsList(f) {
			set[h] = true
		}
	}
	for _, h := range p.externalMods(c.Signature(), c.Args) {
		set[h] = true
	}
	return sortedSet(set)
}

// loopMods: state variables (cells of this frame, heaps, iterators) that the loop with header h may write, and
// heaps in which it only touches objects allocated inside the loop.
func (p *Program) loopMods(x *Exec, fr *Frame, h *ssa.BasicBlock) ([]string, []string) {
	set := map[string]bool{}
	fresh := map[string]bool{}
	add := func(hs []string) {
		for _, s := range hs {
			set[s] = true
		}
	}
	addFresh := func(hs []string) {
		for _, s := range hs {
			fresh[s] = true
		}
	}
	body := fr.loops.body[h]
	d := &directInfo{heaps: map[string]bool{}, fresh: map[string]bool{}}
	cellFields := map[string]map[int]bool{}
	cellWhole := map[string]bool{}
	defer func() {
		if fr.loopFieldMods == nil {
			fr.loopFieldMods = map[*ssa.BasicBlock]map[string][]int{}
		}
		m := map[string][]int{}
		for cv, fs := range cellFields {
			if cellWhole[cv] {
				continue
			}
			var idx []int
			for i := range fs {
				idx = append(idx, i)
			}
			sort.Ints(idx)
			m[cv] = idx
		}
		fr.loopFieldMods[h] = m
	}()
	for b := range body {
		for _, in := range b.Instrs {
			switch in := in.(type) {
			case *ssa.Store:
				a, hs := p.addrRoot(in.Addr)
				if a != nil {
					if fr.isCell[a] {
						cv := x.cellVar(fr, a)
						set[cv] = true
						// field-granular havoc: a loop that only assigns some top-level fields of a struct variable
						// leaves the other fields as they were
						if fi := topFieldOf(in.Addr, a); fi >= 0 {
							if cellFields[cv] == nil {
								cellFields[cv] = map[int]bool{}
							}
							cellFields[cv][fi] = true
						} else {
							cellWhole[cv] = true
						}
					} else {
						_, hs2 := p.addrRootHeap(in.Addr)
						if body[a.Block()] {
							addFresh(hs2)
						} else {
							add(hs2)
						}
					}
				} else if ra := rootAlloc(in.Addr); ra != nil && !fr.isCell[ra] && body[ra.Block()] {
					addFresh(hs)
				} else {
					add(hs)
				}
			case *ssa.Alloc:
				if fr.isCell[in] {
					set[x.cellVar(fr, in)] = true
					cellWhole[x.cellVar(fr, in)] = true
				} else {
					addFresh(p.pointeeHeaps(deref(in.Type())))
				}
			case *ssa.MapUpdate:
				if mt, ok := types.Unalias(in.Map.Type()).Underlying().(*types.Map); ok {
					dn, vn := p.heapMapNames(mt)
					add([]string{dn, vn})
				}
			case *ssa.MakeMap:
				dn, vn := p.heapMapNames(types.Unalias(in.Type()).Underlying().(*types.Map))
				addFresh([]string{dn, vn})
			case *ssa.MakeSlice:
				addFresh([]string{p.heapElemName(types.Unalias(in.Type()).Underlying().(*types.Slice).Elem())})
			case *ssa.Next:
				if r, ok := in.Iter.(*ssa.Range); ok {
					set[x.iterName(fr, r)] = true
				}
			case *ssa.Range:
				set[x.iterName(fr, in)] = true
			case *ssa.MakeClosure:
				d.callees = append(d.callees, in.Fn.(*ssa.Function))
			case ssa.CallInstruction:
				p.directCall(d, in.Common(), add)
				if fr.depth == 0 && fr.contract != nil {
					var names []string
					if _, isGo := in.(*ssa.Go); isGo {
						names = []string{"go"}
					} else if callee := in.Common().StaticCallee(); callee != nil {
						names = calleeNames(callee)
					} else if in.Common().IsInvoke() {
						names = []string{in.Common().Method.Name()}
					}
					for _, as := range fr.contract.Afters {
						for _, t := range names {
							if as.Target == t || strings.HasSuffix(t, "."+as.Target) {
								for _, g := range fr.contract.Ghosts {
									if g.Name == as.Name {
										set[x.ghostVar(fr, g)] = true
									}
								}
							}
						}
					}
				}
			}
		}
	}
	for h := range d.heaps {
		set[h] = true
	}
	for _, c := range d.callees {
		w, f := p.modSets(c)
		add(w)
		addFresh(f)
	}
	for _, s := range d.sigs {
		add(p.dynCallMods(s))
	}
	if _, ok := x.vc.heapSort[allocVar]; !ok {
		x.vc.heapSort[allocVar] = SInt
		x.vc.axiom(app(">", x.initConst(allocVar), "0"))
	}
	set[allocVar] = true
	for h := range set {
		delete(fresh, h)
	}
	return sortedSet(set), sortedSet(fresh)
}

// topFieldOf: addr is &a.f or &a.f.g... for the struct variable a; returns the index of the top-level field f, or -1.
func topFieldOf(addr ssa.Value, a *ssa.Alloc) int {
	fa, ok := addr.(*ssa.FieldAddr)
	if !ok {
		return -1
	}
	for {
		if fa.X == ssa.Value(a) {
			if _, isStruct := deref(a.Type()).Underlying().(*types.Struct); isStruct {
				return fa.Field
			}
			return -1
		}
		inner, ok := fa.X.(*ssa.FieldAddr)
		if !ok {
			return -1
		}
		fa = inner
	}
}
