package main

import (
	"encoding/json"
	"sort"
	"runtime"
	"bytes"
	"context"
	"fmt"
	"os"
	"os/exec"
	"path/filepath"
	"strings"
	"sync"
	"time"
)

type solverRes struct {
	solver string
	status string // unsat, sat, unknown, timeout, error
	out    string
	secs   float64
}

type solverCfg struct {
	name string
	bin  string
	args func(timeoutS int) []string
	cvc5 bool
}

var solvers = []solverCfg{
	{name: "z3-5.1.0", bin: "z3-new", args: func(t int) []string { return []string{"-in", fmt.Sprintf("-T:%d", t)} }},
	{name: "z3-4.8.12", bin: "/usr/bin/z3", args: func(t int) []string { return []string{"-in", fmt.Sprintf("-T:%d", t)} }},
	{name: "cvc5-1.0", bin: "cvc5", args: func(t int) []string { return []string{"--lang=smt2", fmt.Sprintf("--tlimit=%d", t*1000)} }, cvc5: true},
}

func runSolver(sc solverCfg, script string, timeoutS int) solverRes {
	return runSolverCtx(context.Background(), sc, script, timeoutS)
}

// raceUnsat runs the script on several solvers at once; the first unsat answer wins and the others are cancelled.
func raceUnsat(cfgs []solverCfg, scriptFor func(solverCfg) string, timeoutS int) []solverRes {
	ctx, cancel := context.WithCancel(context.Background())
	defer cancel()
	ch := make(chan solverRes, len(cfgs))
	for _, sc := range cfgs {
		go func() { ch <- runSolverCtx(ctx, sc, scriptFor(sc), timeoutS) }()
	}
	var out []solverRes
	for range cfgs {
		r := <-ch
		if ctx.Err() != nil && r.status != "unsat" {
			continue // cancelled after another solver answered
		}
		out = append(out, r)
		if r.status == "unsat" {
			cancel()
			// answers first in the list
			out[0], out[len(out)-1] = out[len(out)-1], out[0]
			break
		}
	}
	return out
}

// solverSlots bounds the number of solver processes running at once to the number of CPUs, so that a solver's
// wall-clock timeout is not eaten by other solvers competing for the same core.
var solverSlots = make(chan struct{}, runtime.NumCPU())

func runSolverCtx(parent context.Context, sc solverCfg, script string, timeoutS int) solverRes {
	select {
	case solverSlots <- struct{}{}:
		defer func() { <-solverSlots }()
	case <-parent.Done():
		return solverRes{solver: sc.name, status: "timeout"}
	}
	if parent.Err() != nil {
		return solverRes{solver: sc.name, status: "timeout"}
	}
	ctx, cancel := context.WithTimeout(parent, time.Duration(timeoutS+5)*time.Second)
	defer cancel()
	cmd := exec.CommandContext(ctx, sc.bin, sc.args(timeoutS)...)
	cmd.Stdin = strings.NewReader(script)
	var out bytes.Buffer
	cmd.Stdout = &out
	cmd.Stderr = &out
	t0 := time.Now()
	err := cmd.Run()
	secs := time.Since(t0).Seconds()
	text := out.String()
	first := strings.TrimSpace(strings.SplitN(text, "\n", 2)[0])
	res := solverRes{solver: sc.name, out: text, secs: secs}
	switch first {
	case "unsat", "sat", "unknown":
		res.status = first
	case "timeout":
		res.status = "timeout"
	default:
		if ctx.Err() != nil {
			res.status = "timeout"
		} else if strings.Contains(text, "timeout") || strings.Contains(text, "interrupted") {
			res.status = "timeout"
		} else {
			res.status = "error"
			_ = err
		}
	}
	return res
}

// decide runs the obligation's script: z3 5.1 first, the other solvers when it does not give a definite answer
// (all three in parallel when `all` is set).
func decide(ob *Obligation, timeoutS int, all bool, dumpDir string) {
	if ob.vc != nil && ob.vc.split && ob.Expect != "sat" {
		if choices := ob.vc.pathChoices(ob, ob.vc.splitMax); len(choices) > 1 {
			subs := make([]*Obligation, len(choices))
			var wg sync.WaitGroup
			for i, ch := range choices {
				c := *ob
				c.Tried = nil
				c.TimeS = 0
				subs[i] = &c
				wg.Add(1)
				go func() {
					defer wg.Done()
					decideWith(subs[i], timeoutS, all, "", ch)
				}()
			}
			wg.Wait()
			ob.Status = "discharged"
			ob.Solver = ""
			for i, c := range subs {
				ob.TimeS += c.TimeS
				ob.Tried = append(ob.Tried, fmt.Sprintf("path %d/%d: %s %s", i+1, len(subs), c.Status, strings.Join(c.Tried, " ")))
				if c.SMTSize > ob.SMTSize {
					ob.SMTSize = c.SMTSize
				}
				switch {
				case c.Status == "failed":
					ob.Status, ob.Output, ob.Model, ob.Solver = "failed", c.Output, c.Model, c.Solver
				case c.Status != "discharged" && ob.Status != "failed":
					ob.Status, ob.Output = c.Status, c.Output
				case ob.Status == "discharged" && !strings.Contains(ob.Solver, c.Solver):
					ob.Solver = strings.TrimPrefix(ob.Solver+"+"+c.Solver, "+")
				}
			}
			if dumpDir != "" {
				os.MkdirAll(dumpDir, 0o755)
				for i, ch := range choices {
					os.WriteFile(filepath.Join(dumpDir, fmt.Sprintf("%s.path%d.smt2", mangle(ob.Name), i+1)), []byte(ob.vc.script(ob, scriptOpts{model: true, noPrune: true, choice: ch})), 0o644)
				}
			}
			return
		}
	}
	decideWith(ob, timeoutS, all, dumpDir, nil)
}

func decideWith(ob *Obligation, timeoutS int, all bool, dumpDir string, choice map[*Node]*Node) {
	vc := ob.vc
	if ob.Short && timeoutS > 3 {
		timeoutS = 3
	}
	if ob.Expect != "sat" {
		// pruned scripts first (sound: fewer hypotheses); a non-unsat answer is never trusted from a pruned script
		full := vc.script(ob, scriptOpts{model: true, noPrune: true, choice: choice})
		var prev string
		levels := []scriptOpts{{pruneAlloc: true, rounds: 2}, {pruneAlloc: true, rounds: 4}, {pruneAlloc: true, rounds: 8}, {pruneAlloc: true}, {}}
		// proof hints: the pruning level that worked last time is tried first (an optimisation only: every answer is
		// still the solver's, and the full sequence follows when the hint does not work)
		hkey := hintKey(ob, choice)
		hinted := -1
		if h, ok := getHint(hkey); ok && h >= 0 && h < len(levels) {
			hinted = 0
			levels = append([]scriptOpts{levels[h]}, levels...)
		} else if ok && h == 5 {
			// last time only the complete script was decided: try that first, then fall back to the usual sequence
			rs := raceUnsat(solvers, func(cfg solverCfg) string {
				if cfg.cvc5 {
					return vc.script(ob, scriptOpts{model: true, cvc5: true, noPrune: true, choice: choice})
				}
				return full
			}, timeoutS)
			for _, r := range rs {
				ob.Tried = append(ob.Tried, fmt.Sprintf("%s:%s:%.2fs", r.solver, r.status, r.secs))
				ob.TimeS += r.secs
			}
			if r := rs[0]; r.status == "unsat" {
				ob.Status, ob.Solver, ob.SMTSize = "discharged", r.solver, len(full)
				return
			}
		}
		// two passes over the pruning levels: a quick one (most proofs on a pruned script take well under a second),
		// then - only if nothing was discharged - a patient one with the full per-solver budget
		nl := len(levels)
		if !ob.Short {
			levels = append(levels, levels...)
		}
		for li, o := range levels {
			patient := li >= nl || li == hinted
			if li >= nl {
				prev = ""
			}
			o.choice = choice
			sc := vc.script(ob, o)
			if sc == prev || len(sc) >= len(full) {
				continue
			}
			prev = sc
			t := timeoutS
			if !patient && t > 2 {
				t = 2
			}
			if ob.Short && (o.rounds == 4 || o.rounds == 8) {
				continue
			}
			o2 := o
			rs := raceUnsat(solvers, func(cfg solverCfg) string {
				if cfg.cvc5 {
					o3 := o2
					o3.cvc5 = true
					return vc.script(ob, o3)
				}
				return sc
			}, t)
			for _, r := range rs {
				ob.Tried = append(ob.Tried, fmt.Sprintf("%s(pruned %dB):%s:%.2fs", r.solver, len(sc), r.status, r.secs))
				ob.TimeS += r.secs
			}
			if r := rs[0]; r.status == "unsat" {
				ob.Status = "discharged"
				ob.Solver = r.solver
				ob.SMTSize = len(sc)
				setHint(hkey, levelIndex(o))
				if all {
					// thorough: the other solvers get the very script that was just refuted; a `sat` from any of them
					// is a disagreement between solvers and is reported as an error, never ignored
					for _, cfg := range solvers {
						if cfg.name == r.solver {
							continue
						}
						s2 := sc
						if cfg.cvc5 {
							o3 := o2
							o3.cvc5 = true
							s2 = vc.script(ob, o3)
						}
						r2 := runSolver(cfg, s2, 20)
						ob.Tried = append(ob.Tried, fmt.Sprintf("cross-check %s:%s:%.2fs", r2.solver, r2.status, r2.secs))
						ob.TimeS += r2.secs
						switch r2.status {
						case "unsat":
							ob.Solver += "+" + r2.solver
						case "sat":
							ob.Status = "error"
							ob.Output = "solvers disagree on the same script: " + strings.Join(ob.Tried, " ")
						}
					}
				}
				if dumpDir != "" {
					os.MkdirAll(dumpDir, 0o755)
					os.WriteFile(filepath.Join(dumpDir, mangle(ob.Name)+".smt2"), []byte(sc), 0o644)
				}
				return
			}
		}
	}
	plain := vc.script(ob, scriptOpts{model: true, noPrune: true, choice: choice})
	ob.SMTSize = len(plain)
	if dumpDir != "" {
		os.MkdirAll(dumpDir, 0o755)
		os.WriteFile(filepath.Join(dumpDir, mangle(ob.Name)+".smt2"), []byte(plain), 0o644)
	}
	try := func(sc solverCfg) solverRes {
		s := plain
		if sc.cvc5 {
			s = vc.script(ob, scriptOpts{model: true, cvc5: true, noPrune: true, choice: choice})
		}
		r := runSolver(sc, s, timeoutS)
		return r
	}
	var results []solverRes
	if ob.Expect == "sat" {
		// reachability (vacuity) probe: a contradiction shows up quickly; a quantified sat answer often never does
		t := timeoutS
		if t > 3 {
			t = 3
		}
		results = append(results, runSolver(solvers[0], plain, t))
	} else if all {
		var wg sync.WaitGroup
		rs := make([]solverRes, len(solvers))
		for i, sc := range solvers {
			wg.Add(1)
			go func() {
				defer wg.Done()
				rs[i] = try(sc)
			}()
		}
		wg.Wait()
		results = rs
	} else {
		for _, sc := range solvers {
			r := try(sc)
			results = append(results, r)
			if r.status == "unsat" || r.status == "sat" || ob.Short {
				break
			}
		}
	}
	var unsat, sat *solverRes
	for i := range results {
		r := &results[i]
		ob.Tried = append(ob.Tried, fmt.Sprintf("%s:%s:%.2fs", r.solver, r.status, r.secs))
		ob.TimeS += r.secs
		if r.status == "unsat" && unsat == nil {
			unsat = r
		}
		if r.status == "sat" && sat == nil {
			sat = r
		}
	}
	if unsat != nil && sat != nil {
		ob.Status = "error"
		ob.Output = "solvers disagree: " + strings.Join(ob.Tried, " ")
		return
	}
	expectSat := ob.Expect == "sat"
	switch {
	case unsat != nil:
		ob.Solver = unsat.solver
		if expectSat {
			ob.Status = "cover-failed"
		} else {
			ob.Status = "discharged"
			setHint(hintKey(ob, choice), 5)
		}
	case sat != nil:
		ob.Solver = sat.solver
		if expectSat {
			ob.Status = "cover-ok"
		} else {
			ob.Status = "failed"
			ob.Output = sat.out
			ob.Model = parseModel(sat.out)
		}
	default:
		if expectSat {
			// cannot refute reachability: not vacuous as far as the solver can tell
			ob.Status = "cover-ok"
			ob.Solver = "none(" + results[0].status + ")"
		} else {
			ob.Status = "unknown"
			var b strings.Builder
			for _, r := range results {
				fmt.Fprintf(&b, "== %s: %s (%.1fs)\n%s\n", r.solver, r.status, r.secs, trunc2(r.out, 2000))
			}
			ob.Output = b.String()
		}
	}
}

func trunc2(s string, n int) string {
	if len(s) > n {
		return s[:n] + "\n...[truncated]"
	}
	return s
}

// parseModel parses the (get-value ...) answer: ((name value) (name value) ...)
func parseModel(out string) map[string]string {
	m := map[string]string{}
	i := strings.Index(out, "((")
	if i < 0 {
		return m
	}
	s := out[i+1:]
	// iterate over top-level (name value) pairs
	depth := 0
	start := -1
	for j := 0; j < len(s); j++ {
		switch s[j] {
		case '(':
			if depth == 0 {
				start = j
			}
			depth++
		case ')':
			depth--
			if depth == 0 && start >= 0 {
				pair := s[start+1 : j]
				k := strings.IndexAny(pair, " \n")
				if k > 0 {
					m[pair[:k]] = strings.Join(strings.Fields(pair[k+1:]), " ")
				}
				start = -1
			}
			if depth < 0 {
				return m
			}
		}
	}
	return m
}

// ---------------------------------------------------------------------------
// proof hints (which pruning level discharged an obligation last time); a cache, never an input to a verdict

var (
	hintMu    sync.Mutex
	hints     = map[string]int{}
	hintsFile string
	hintsDirty bool
)

func levelIndex(o scriptOpts) int {
	switch {
	case o.pruneAlloc && o.rounds == 2:
		return 0
	case o.pruneAlloc && o.rounds == 4:
		return 1
	case o.pruneAlloc && o.rounds == 8:
		return 2
	case o.pruneAlloc:
		return 3
	}
	return 4
}

func hintKey(ob *Obligation, choice map[*Node]*Node) string {
	k := ob.Name
	if len(choice) > 0 {
		var ids []string
		for j, p := range choice {
			ids = append(ids, fmt.Sprintf("%d<%d", j.ID, p.ID))
		}
		sort.Strings(ids)
		k += "|" + strings.Join(ids, ",")
	}
	return k
}

func getHint(k string) (int, bool) {
	hintMu.Lock()
	defer hintMu.Unlock()
	v, ok := hints[k]
	return v, ok
}

func setHint(k string, v int) {
	hintMu.Lock()
	defer hintMu.Unlock()
	if old, ok := hints[k]; !ok || old != v {
		hints[k] = v
		hintsDirty = true
	}
}

func loadHints(file string) {
	hintsFile = file
	b, err := os.ReadFile(file)
	if err != nil {
		return
	}
	hintMu.Lock()
	defer hintMu.Unlock()
	json.Unmarshal(b, &hints)
}

func saveHints() {
	hintMu.Lock()
	defer hintMu.Unlock()
	if hintsFile == "" || !hintsDirty {
		return
	}
	// merge with what another run may have written meanwhile
	if b, err := os.ReadFile(hintsFile); err == nil {
		old := map[string]int{}
		if json.Unmarshal(b, &old) == nil {
			for k, v := range old {
				if _, ok := hints[k]; !ok {
					hints[k] = v
				}
			}
		}
	}
	b, _ := json.Marshal(hints)
	os.MkdirAll(filepath.Dir(hintsFile), 0o755)
	os.WriteFile(hintsFile+".tmp", b, 0o644)
	os.Rename(hintsFile+".tmp", hintsFile)
}
