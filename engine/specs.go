package main

import (
	"regexp"
	"fmt"
	"go/types"
	"sort"
	"strings"

	"golang.org/x/tools/go/ssa"
)

// Assumed contracts on the standard library and dependencies (assumption A5).
// Every entry is listed in the evidence's trusted base when a verified function calls it.

type specHandler func(c *callCtx) bool

var specTable = map[string]specHandler{}
var specMods = map[string]func(p *Program, c *ssa.CallCommon) []string{}
var specDoc = map[string]string{}

func reg(name, doc string, h specHandler) {
	specTable[name] = h
	specDoc[name] = doc
}

func intRes(c *callCtx, s string, t types.Type) bool {
	c.res = []Term{{S: s, Sort: SInt, T: t}}
	return true
}

func boolRes(c *callCtx, s string) bool {
	c.res = []Term{{S: s, Sort: SBool, T: types.Typ[types.Bool]}}
	return true
}

func noop(c *callCtx) bool {
	c.freshResults("noop")
	return true
}

func (c *callCtx) used(name string) {
	c.x.prog.noteExternal("spec:" + name)
}

func init() {
	// --- time (assumption A4: one integer nanosecond timeline)
	reg("(time.Time).Sub", "t - u", func(c *callCtx) bool { return intRes(c, app("-", c.args[0].S, c.args[1].S), c.resTypes[0]) })
	reg("(time.Time).Add", "t + d", func(c *callCtx) bool { return intRes(c, app("+", c.args[0].S, c.args[1].S), c.resTypes[0]) })
	reg("(time.Time).Before", "t < u", func(c *callCtx) bool { return boolRes(c, app("<", c.args[0].S, c.args[1].S)) })
	reg("(time.Time).After", "t > u", func(c *callCtx) bool { return boolRes(c, app(">", c.args[0].S, c.args[1].S)) })
	reg("(time.Time).Equal", "t == u", func(c *callCtx) bool { return boolRes(c, mkEq(c.args[0].S, c.args[1].S)) })
	reg("(time.Time).Compare", "sign(t-u)", func(c *callCtx) bool {
		return intRes(c, mkIte(app("<", c.args[0].S, c.args[1].S), "(- 1)", mkIte(app(">", c.args[0].S, c.args[1].S), "1", "0")), c.resTypes[0])
	})
	reg("(time.Time).IsZero", "t == 0", func(c *callCtx) bool { return boolRes(c, mkEq(c.args[0].S, "0")) })
	reg("(time.Time).Round", "half-up multiple of d; d<=0 identity", func(c *callCtx) bool {
		return intRes(c, app("go_round", c.args[0].S, c.args[1].S), c.resTypes[0])
	})
	reg("(time.Time).Truncate", "multiple of d below t; d<=0 identity", func(c *callCtx) bool {
		return intRes(c, app("go_trunc", c.args[0].S, c.args[1].S), c.resTypes[0])
	})
	reg("(time.Time).UTC", "identity on the timeline", func(c *callCtx) bool { return intRes(c, c.args[0].S, c.resTypes[0]) })
	reg("(time.Time).Local", "identity on the timeline", func(c *callCtx) bool { return intRes(c, c.args[0].S, c.resTypes[0]) })
	reg("(time.Duration).Abs", "|d|", func(c *callCtx) bool { return intRes(c, app("go_abs", c.args[0].S), c.resTypes[0]) })
	reg("(time.Duration).Round", "half-away multiple of m; m<=0 identity", func(c *callCtx) bool {
		return intRes(c, app("go_round", c.args[0].S, c.args[1].S), c.resTypes[0])
	})
	reg("(time.Duration).Truncate", "toward zero multiple of m", func(c *callCtx) bool {
		return intRes(c, app("go_trunc", c.args[0].S, c.args[1].S), c.resTypes[0])
	})
	reg("time.Now", "fresh time, no ordering assumed", func(c *callCtx) bool { c.freshResults("now"); return true })
	reg("time.Since", "fresh duration", func(c *callCtx) bool { c.freshResults("since"); return true })

	// --- errors / fmt
	nonNilErr := func(c *callCtx) bool {
		c.freshResults("err")
		if len(c.res) == 1 && c.res[0].Sort == SIface {
			c.n.assume(mkNot(app("=", app("i.tag", c.res[0].S), "0")))
		}
		return true
	}
	reg("errors.New", "returns a non-nil error", nonNilErr)
	reg("fmt.Errorf", "returns a non-nil error", nonNilErr)
	reg("fmt.Sprintf", "returns some string; no effects; for up to 4 arguments that are all strings the result is a fixed (uninterpreted) function of the format and the argument values", func(c *callCtx) bool {
		c.freshResults("sprintf")
		x := c.x
		// the variadic idiom: new [k]any; stores; slice
		sv, ok := c.argVals[1].(*ssa.Slice)
		if !ok || sv.Low != nil || sv.High != nil {
			return true
		}
		al, ok := sv.X.(*ssa.Alloc)
		if !ok {
			return true
		}
		arr, ok := deref(al.Type()).Underlying().(*types.Array)
		if !ok || arr.Len() < 1 || arr.Len() > 4 {
			return true
		}
		h := x.heapElem(arr.Elem())
		ref := app("s.arr", c.args[1].S)
		strTag := intLit(int64(x.ss.tagOf(types.Typ[types.String])))
		var elems, conds []string
		for i := int64(0); i < arr.Len(); i++ {
			e := app("select", app("select", x.get(c.st, h).S, ref), intLit(i))
			elems = append(elems, e)
			conds = append(conds, mkEq(app("i.tag", e), strTag))
		}
		f := fmt.Sprintf("uf_sprintf_%d", arr.Len())
		sorts := []string{SStr}
		for range elems {
			sorts = append(sorts, SIface)
		}
		x.vc.declFun(f, sorts, SStr)
		c.n.assume(mkImp(mkAnd(conds...), mkEq(c.res[0].S, app(f, append([]string{c.args[0].S}, elems...)...))))
		return true
	})
	reg("strings.Join", "returns some string; no effects", func(c *callCtx) bool { c.freshResults("join"); return true })
	reg("fmt.Sprint", "returns some string; no effects", func(c *callCtx) bool { c.freshResults("sprint"); return true })
	reg("fmt.Fprintf", "no effects on program state", noop)
	reg("fmt.Fprintln", "no effects on program state", noop)
	reg("fmt.Fprint", "no effects on program state", noop)
	reg("fmt.Println", "no effects on program state", noop)
	reg("fmt.Printf", "no effects on program state", noop)
	reg("errors.Is", "pure predicate of (err, target)", func(c *callCtx) bool {
		c.x.vc.declFun("uf_errors_Is", []string{SIface, SIface}, SBool)
		r := app("uf_errors_Is", c.args[0].S, c.args[1].S)
		// errors.Is(nil, non-nil) is false; errors.Is(e, e) is true for comparable e
		c.n.assume(mkImp(mkAnd(app("=", app("i.tag", c.args[0].S), "0"), mkNot(app("=", app("i.tag", c.args[1].S), "0"))), mkNot(r)))
		c.n.assume(mkImp(mkEq(c.args[0].S, c.args[1].S), r))
		return boolRes(c, r)
	})
	reg("errors.As", "pure predicate/extractor pair (As_T(err), AsVal_T(err)) per target type; direct dynamic-type match implies success; nil never matches", func(c *callCtx) bool {
		mi, ok := c.argVals[1].(*ssa.MakeInterface)
		if !ok {
			return false
		}
		pt, ok := types.Unalias(mi.X.Type()).Underlying().(*types.Pointer)
		if !ok {
			return false
		}
		x := c.x
		okT, valT := x.errorsAsTerms(c.args[0], pt.Elem())
		ref := Term{S: app("i.val", c.args[1].S), Sort: SInt, T: mi.X.Type()}
		// the target may be a local cell whose address was boxed: write through its place when known
		var p *Place
		if pl, has := c.fr.places[mi.X]; has {
			p = pl
		} else if pv, has := c.fr.vals[mi.X]; has {
			ref = pv
			p = x.ptrPlaceT(nil, c.n, ref, 0)
		} else {
			p = x.ptrPlaceT(nil, c.n, ref, 0)
		}
		old := x.loadPlace(c.n, c.st, p)
		x.storePlace(c.n, c.st, p, Term{S: mkIte(okT, valT.S, old.S), Sort: valT.Sort, T: pt.Elem()})
		return boolRes(c, okT)
	})
	reg("errors.Unwrap", "pure function of err", func(c *callCtx) bool {
		c.x.vc.declFun("uf_errors_Unwrap", []string{SIface}, SIface)
		c.res = []Term{{S: app("uf_errors_Unwrap", c.args[0].S), Sort: SIface, T: c.resTypes[0]}}
		return true
	})

	reg("slices.Clone", "fresh array holding the same elements (same length); no effect on the source", func(c *callCtx) bool {
		sl, ok := types.Unalias(c.argVals[0].Type()).Underlying().(*types.Slice)
		if !ok {
			return false
		}
		x := c.x
		src := c.args[0]
		h := x.heapElem(sl.Elem())
		es := x.ss.sortOf(sl.Elem())
		heap := x.get(c.st, h).S
		fresh := x.allocRef(c.n, c.st, "clone_arr")
		na := x.vc.freshConst("clone_elems", "(Array Int "+es+")")
		c.n.assume(fmt.Sprintf("(forall ((j Int)) (! (= (select %s j) (select (select %s (s.arr %s)) (+ (s.off %s) j))) :pattern ((select %s j))))", na, heap, src.S, src.S, na))
		arr := mkIte(app("=", app("s.len", src.S), "0"), app("s.arr", src.S), fresh)
		off := mkIte(app("=", app("s.len", src.S), "0"), app("s.off", src.S), "0")
		nh := x.vc.freshConst(shortVar(h)+"_clone", x.varSort(h))
		c.n.assume(mkEq(nh, mkIte(app("=", app("s.len", src.S), "0"), heap, app("store", heap, fresh, na))))
		x.set(c.st, h, nh)
		r := Term{S: app("mk_Slice", arr, off, app("s.len", src.S), app("s.len", src.S)), Sort: SSlice, T: c.resTypes[0]}
		c.res = []Term{x.nameTerm(c.n, "cloned", r)}
		if simpleConst(heap) {
			// the same fact at the level of the specification access s[i] (a consequence of the formulas above)
			a, b := x.elemAt(h, nh, c.res[0].S, "j", es), x.elemAt(h, heap, src.S, "j", es)
			c.n.assume(fmt.Sprintf("(forall ((j Int)) (! (=> (and (<= 0 j) (< j (s.len %s))) (= %s %s)) :pattern (%s) :pattern (%s)))", src.S, a, b, a, b))
		}
		return true
	})
	reg("slices.Contains", "result <==> exists j :: 0 <= j < len(s) && s[j] == v; no effects", func(c *callCtx) bool {
		sl, ok := types.Unalias(c.argVals[0].Type()).Underlying().(*types.Slice)
		if !ok {
			return false
		}
		x := c.x
		h := x.heapElem(sl.Elem())
		es := x.ss.sortOf(sl.Elem())
		s0 := c.args[0]
		at := x.elemAt(h, x.get(c.st, h).S, s0.S, "j", es)
		r := x.fresh("contains", types.Typ[types.Bool])
		c.n.assume(mkEq(r.S, fmt.Sprintf("(exists ((j Int)) (and (<= 0 j) (< j (s.len %s)) (= %s %s)))", s0.S, at, c.args[1].S)))
		// trigger-friendly consequence: no element equals v when the answer is false
		c.n.assume(mkImp(mkNot(r.S), fmt.Sprintf("(forall ((j Int)) (! (=> (and (<= 0 j) (< j (s.len %s))) (not (= %s %s))) :pattern (%s)))", s0.S, at, c.args[1].S, at)))
		// the same answer as the specification-level contains(s, v) (its axioms are stated only where a contract uses it)
		c.n.assume(mkEq(r.S, x.inSlice(h, x.get(c.st, h).S, s0.S, c.args[1].S, es, false)))
		c.res = []Term{r}
		return true
	})
	reg("slices.Index", "the first index of v in s, or -1 when absent; no effects", func(c *callCtx) bool {
		sl, ok := types.Unalias(c.argVals[0].Type()).Underlying().(*types.Slice)
		if !ok {
			return false
		}
		x := c.x
		h := x.heapElem(sl.Elem())
		es := x.ss.sortOf(sl.Elem())
		s0 := c.args[0]
		hs := x.get(c.st, h).S
		at := x.elemAt(h, hs, s0.S, "j", es)
		r := x.fresh("index", types.Typ[types.Int])
		c.n.assume(mkAnd(app("<=", "(- 1)", r.S), app("<", r.S, app("s.len", s0.S))))
		c.n.assume(mkImp(app(">=", r.S, "0"), mkEq(x.elemAt(h, hs, s0.S, r.S, es), c.args[1].S)))
		c.n.assume(fmt.Sprintf("(forall ((j Int)) (! (=> (and (<= 0 j) (< j (ite (>= %s 0) %s (s.len %s)))) (not (= %s %s))) :pattern (%s)))", r.S, r.S, s0.S, at, c.args[1].S, at))
		c.res = []Term{r}
		return true
	})
	specMods["slices.Index"] = func(p *Program, c *ssa.CallCommon) []string { return nil }
	reg("cmp.Compare", "-1, 0 or +1 as a < b, a == b, a > b (ordered types; NaN is not modelled); no effects", func(c *callCtx) bool {
		if len(c.args) != 2 {
			return false
		}
		a, b := c.args[0], c.args[1]
		var lt string
		switch a.Sort {
		case SInt, SReal:
			lt = app("<", a.S, b.S)
		case SStr:
			lt = app("u_slt", a.S, b.S)
			c.x.vc.axiom("(forall ((a Str)) (! (not (u_slt a a)) :pattern ((u_slt a a))))")
		default:
			return false
		}
		c.res = []Term{{S: mkIte(lt, "(- 1)", mkIte(mkEq(a.S, b.S), "0", "1")), Sort: SInt, T: types.Typ[types.Int]}}
		return true
	})
	specMods["cmp.Compare"] = func(p *Program, c *ssa.CallCommon) []string { return nil }
	reg("cmp.Or", "the first argument that is not the zero value, else the zero value (call sites with a literal argument list only); no effects", func(c *callCtx) bool {
		sv, ok := c.argVals[0].(*ssa.Slice)
		if !ok {
			return false
		}
		al, ok := sv.X.(*ssa.Alloc)
		if !ok || sv.Low != nil || sv.High != nil {
			return false
		}
		at, ok := types.Unalias(deref(al.Type())).Underlying().(*types.Array)
		if !ok || at.Len() > 16 {
			return false
		}
		x := c.x
		h := x.heapElem(at.Elem())
		hs := x.get(c.st, h).S
		s0 := c.args[0].S
		zero := x.ss.zero(at.Elem()).S
		r := zero
		for i := int(at.Len()) - 1; i >= 0; i-- {
			e := app("select", app("select", hs, app("s.arr", s0)), app("+", app("s.off", s0), intLit(int64(i))))
			r = mkIte(mkEq(e, zero), r, e)
		}
		res := x.nameTerm(c.n, "cmpor", Term{S: r, Sort: x.ss.sortOf(at.Elem()), T: at.Elem()})
		c.res = []Term{res}
		return true
	})
	specMods["cmp.Or"] = func(p *Program, c *ssa.CallCommon) []string { return nil }
	reg("slices.Equal", "result <==> same length and equal elements at every index; no effects", func(c *callCtx) bool {
		sl, ok := types.Unalias(c.argVals[0].Type()).Underlying().(*types.Slice)
		if !ok {
			return false
		}
		x := c.x
		h := x.heapElem(sl.Elem())
		es := x.ss.sortOf(sl.Elem())
		a, b := c.args[0], c.args[1]
		hs := x.get(c.st, h).S
		ata := x.elemAt(h, hs, a.S, "j", es)
		atb := x.elemAt(h, hs, b.S, "j", es)
		r := x.fresh("equal", types.Typ[types.Bool])
		c.n.assume(mkImp(r.S, mkEq(app("s.len", a.S), app("s.len", b.S))))
		c.n.assume(mkImp(r.S, fmt.Sprintf("(forall ((j Int)) (! (=> (and (<= 0 j) (< j (s.len %s))) (= %s %s)) :pattern (%s) :pattern (%s)))", a.S, ata, atb, ata, atb)))
		c.n.assume(mkImp(mkNot(r.S), mkOr(mkNot(mkEq(app("s.len", a.S), app("s.len", b.S))),
			fmt.Sprintf("(exists ((j Int)) (and (<= 0 j) (< j (s.len %s)) (not (= %s %s))))", a.S, ata, atb))))
		c.res = []Term{r}
		return true
	})
	specMods["slices.Equal"] = func(p *Program, c *ssa.CallCommon) []string { return nil }
	reg("slices.Delete", "removes s[i:j] in place: the result shares s's array, has length len(s)-(j-i), keeps s[:i] and holds old s[j:] from index i on; the vacated tail is zeroed; panics unless 0 <= i <= j <= len(s) (an obligation in safe functions)", func(c *callCtx) bool {
		sl, ok := types.Unalias(c.argVals[0].Type()).Underlying().(*types.Slice)
		if !ok {
			return false
		}
		x := c.x
		h := x.heapElem(sl.Elem())
		es := x.ss.sortOf(sl.Elem())
		s0, i, j := c.args[0].S, c.args[1].S, c.args[2].S
		x.safety(c.fr, c.n, mkAnd(app("<=", "0", i), app("<=", i, j), app("<=", j, app("s.len", s0))), "slices.Delete-range", c.instr.Pos())
		c.n.assume(mkAnd(app("<=", "0", i), app("<=", i, j), app("<=", j, app("s.len", s0))))
		old := x.get(c.st, h).S
		oldArr := app("select", old, app("s.arr", s0))
		na := x.freshSort("deleted", "(Array Int "+es+")")
		off := app("s.off", s0)
		d := app("-", j, i)
		// elementwise definition, stated once per trigger (new cell / old cell) so that membership facts flow both ways
		c.n.assume(fmt.Sprintf("(forall ((k Int)) (! (= (select %s k) (ite (or (< k (+ %s %s)) (>= k (+ %s (s.len %s)))) (select %s k) (ite (< k (+ %s (- (s.len %s) %s))) (select %s (+ k %s)) %s))) :pattern ((select %s k))))",
			na.S, off, i, off, s0, oldArr, off, s0, d, oldArr, d, x.ss.zeroOfSort(es, sl.Elem()), na.S))
		c.n.assume(fmt.Sprintf("(forall ((k Int)) (! (=> (and (<= (+ %s %s) k) (< k (+ %s (s.len %s)))) (= (select %s (- k %s)) (select %s k))) :pattern ((select %s k))))",
			off, j, off, s0, na.S, d, oldArr, oldArr))
		c.n.assume(fmt.Sprintf("(forall ((k Int)) (! (=> (< k (+ %s %s)) (= (select %s k) (select %s k))) :pattern ((select %s k))))",
			off, i, na.S, oldArr, oldArr))
		x.setNamed(c.n, c.st, h, app("store", old, app("s.arr", s0), na.S))
		r := app("mk_Slice", app("s.arr", s0), off, app("-", app("s.len", s0), d), app("s.cap", s0))
		c.res = []Term{x.nameTerm(c.n, "deleted", Term{S: r, Sort: SSlice, T: c.resTypes[0]})}
		// the same definition at the level of the specification access s[i] (consequences of the formulas above)
		if nh := x.get(c.st, h).S; simpleConst(nh) && simpleConst(old) {
			an := x.elemAt(h, nh, c.res[0].S, "k", es)
			c.n.assume(fmt.Sprintf("(forall ((k Int)) (! (=> (and (<= 0 k) (< k (- (s.len %s) %s))) (= %s (ite (< k %s) %s %s))) :pattern (%s)))",
				s0, d, an, i, x.elemAt(h, old, s0, "k", es), x.elemAt(h, old, s0, app("+", "k", d), es), an))
			ao := x.elemAt(h, old, s0, "k", es)
			c.n.assume(fmt.Sprintf("(forall ((k Int)) (! (and (=> (and (<= 0 k) (< k %s)) (= %s %s)) (=> (and (<= %s k) (< k (s.len %s))) (= %s %s))) :pattern (%s)))",
				i, an, ao, j, s0, x.elemAt(h, nh, c.res[0].S, app("-", "k", d), es), ao, ao))
		}
		return true
	})
	specMods["slices.Delete"] = func(p *Program, c *ssa.CallCommon) []string {
		if sl, ok := types.Unalias(c.Args[0].Type()).Underlying().(*types.Slice); ok {
			return []string{p.heapElemName(sl.Elem())}
		}
		return nil
	}
	reg("slices.Max", "panics on an empty slice (an obligation in safe functions); the result is an element of the slice", func(c *callCtx) bool {
		sl, ok := types.Unalias(c.argVals[0].Type()).Underlying().(*types.Slice)
		if !ok {
			return false
		}
		x := c.x
		s0 := c.args[0]
		x.safety(c.fr, c.n, app(">", app("s.len", s0.S), "0"), "slices.Max-nonempty", c.instr.Pos())
		h := x.heapElem(sl.Elem())
		es := x.ss.sortOf(sl.Elem())
		r := x.fresh("max", c.resTypes[0])
		at := x.elemAt(h, x.get(c.st, h).S, s0.S, "j", es)
		c.n.assume(fmt.Sprintf("(exists ((j Int)) (and (<= 0 j) (< j (s.len %s)) (= %s %s)))", s0.S, at, r.S))
		if es == SInt {
			c.n.assume(fmt.Sprintf("(forall ((j Int)) (! (=> (and (<= 0 j) (< j (s.len %s))) (<= %s %s)) :pattern (%s)))", s0.S, at, r.S, at))
		}
		c.res = []Term{r}
		return true
	})
	specMods["slices.Max"] = func(p *Program, c *ssa.CallCommon) []string { return nil }
	reg("slices.Sort", "permutes the elements in place (length unchanged); nothing else changes", func(c *callCtx) bool {
		sl, ok := types.Unalias(c.argVals[0].Type()).Underlying().(*types.Slice)
		if !ok {
			return false
		}
		x := c.x
		h := x.heapElem(sl.Elem())
		old := x.get(c.st, h).S
		na := x.freshSort("sorted", "(Array Int "+x.ss.sortOf(sl.Elem())+")")
		x.setNamed(c.n, c.st, h, app("store", old, app("s.arr", c.args[0].S), na.S))
		return true
	})
	specMods["slices.Sort"] = func(p *Program, c *ssa.CallCommon) []string {
		if sl, ok := types.Unalias(c.Args[0].Type()).Underlying().(*types.Slice); ok {
			return []string{p.heapElemName(sl.Elem())}
		}
		return nil
	}
	specMods["slices.Contains"] = func(p *Program, c *ssa.CallCommon) []string { return nil }
	specMods["slices.Clone"] = func(p *Program, c *ssa.CallCommon) []string { return nil }

	// --- regexp: a compiled regexp remembers its pattern text; matching is an uninterpreted relation of (pattern, input)
	reg("regexp.MustCompile", "returns a non-nil *Regexp r with pattern(r) == the argument (panics otherwise: not modelled unless the caller is safe)", func(c *callCtx) bool {
		x := c.x
		x.vc.declFun("uf_re_pattern", []string{SInt}, SStr)
		x.vc.declFun("uf_re_compiles", []string{SStr}, SBool)
		if c.fr.safe && c.fr.depth == 0 {
			x.safety(c.fr, c.n, app("uf_re_compiles", c.args[0].S), "regexp-must-compile", c.instr.Pos())
		}
		r := x.allocRef(c.n, c.st, "regexp")
		c.n.assume(mkEq(app("uf_re_pattern", r), c.args[0].S))
		c.res = []Term{{S: r, Sort: SInt, T: c.resTypes[0]}}
		return true
	})
	reg("regexp.Compile", "err == nil iff compiles(pattern); then the result is non-nil with pattern(r) == the argument, else nil", func(c *callCtx) bool {
		x := c.x
		x.vc.declFun("uf_re_pattern", []string{SInt}, SStr)
		x.vc.declFun("uf_re_compiles", []string{SStr}, SBool)
		ok := app("uf_re_compiles", c.args[0].S)
		r := x.allocRef(c.n, c.st, "regexp")
		c.n.assume(mkEq(app("uf_re_pattern", r), c.args[0].S))
		e := x.fresh("compile_err", c.resTypes[1])
		c.n.assume(mkEq(app("=", app("i.tag", e.S), "0"), ok))
		c.res = []Term{{S: mkIte(ok, r, "0"), Sort: SInt, T: c.resTypes[0]}, e}
		return true
	})
	reg("(*regexp.Regexp).MatchString", "reMatch(pattern(re), s): an uninterpreted relation", func(c *callCtx) bool {
		x := c.x
		x.vc.declFun("uf_re_pattern", []string{SInt}, SStr)
		x.vc.declFun("uf_re_match", []string{SStr, SStr}, SBool)
		return boolRes(c, app("uf_re_match", app("uf_re_pattern", c.args[0].S), c.args[1].S))
	})
	for _, m := range []string{"FindStringSubmatchIndex", "FindStringSubmatch", "FindStringIndex", "FindString", "FindAllString", "FindAllStringSubmatch", "FindAllStringIndex", "ReplaceAllString", "SubexpNames", "NumSubexp"} {
		reg("(*regexp.Regexp)."+m, "returns some value (slices are new or nil); the regexp and the program state are not modified", func(c *callCtx) bool {
			c.x.bumpAlloc(c.n, c.st)
			c.freshResults("re_" + m)
			return true
		})
	}
	reg("(*regexp.Regexp).String", "the pattern text", func(c *callCtx) bool {
		c.x.vc.declFun("uf_re_pattern", []string{SInt}, SStr)
		c.res = []Term{{S: app("uf_re_pattern", c.args[0].S), Sort: SStr, T: c.resTypes[0]}}
		return true
	})

	reg("net/url.Parse", "err == nil iff urlParses(s); then the result is non-nil, else nil", func(c *callCtx) bool {
		x := c.x
		x.vc.declFun("uf_url_parses", []string{SStr}, SBool)
		ok := app("uf_url_parses", c.args[0].S)
		r := x.allocRef(c.n, c.st, "url")
		e := x.fresh("urlparse_err", c.resTypes[1])
		c.n.assume(mkEq(app("=", app("i.tag", e.S), "0"), ok))
		c.res = []Term{{S: mkIte(ok, r, "0"), Sort: SInt, T: c.resTypes[0]}, e}
		return true
	})

	reg("net/http.NewRequestWithContext", "either err == nil and the request is a fresh non-nil object, or err != nil and the request is nil (as documented)", func(c *callCtx) bool {
		x := c.x
		r := x.allocRef(c.n, c.st, "httpreq")
		e := x.fresh("newreq_err", c.resTypes[1])
		ok := app("=", app("i.tag", e.S), "0")
		c.res = []Term{{S: mkIte(ok, r, "0"), Sort: SInt, T: c.resTypes[0]}, e}
		return true
	})
	specMods["net/http.NewRequestWithContext"] = func(p *Program, c *ssa.CallCommon) []string { return nil }

	reg("github.com/prometheus/common/model.ParseDuration", "err == nil iff durationParses(s); then the result is durationOf(s), else 0", func(c *callCtx) bool {
		x := c.x
		x.vc.declFun("uf_dur_parses", []string{SStr}, SBool)
		x.vc.declFun("uf_dur_of", []string{SStr}, SInt)
		ok := app("uf_dur_parses", c.args[0].S)
		e := x.fresh("parsedur_err", c.resTypes[1])
		c.n.assume(mkEq(app("=", app("i.tag", e.S), "0"), ok))
		c.res = []Term{{S: mkIte(ok, app("uf_dur_of", c.args[0].S), "0"), Sort: SInt, T: c.resTypes[0]}, e}
		return true
	})

	// --- logging: no effect on program state
	for _, n := range []string{"log/slog.Debug", "log/slog.Info", "log/slog.Warn", "log/slog.Error", "(*log/slog.Logger).Debug", "(*log/slog.Logger).Info", "(*log/slog.Logger).Warn", "(*log/slog.Logger).Error",
		"(*log/slog.Logger).Log", "log/slog.Log", "(*log/slog.Logger).Enabled", "log/slog.Default"} {
		reg(n, "logging has no effect on program state", noop)
	}
	for _, n := range []string{"log/slog.String", "log/slog.Int", "log/slog.Any", "log/slog.Bool", "log/slog.Duration", "log/slog.Time", "log/slog.Uint64", "log/slog.Int64", "log/slog.Float64", "log/slog.Group"} {
		reg(n, "builds a log attribute; no effect on program state", noop)
	}

	// --- sync: lock operations do not change the data they protect (assumption A8)
	for _, n := range []string{"(*sync.Mutex).Lock", "(*sync.Mutex).Unlock", "(*sync.RWMutex).Lock", "(*sync.RWMutex).Unlock", "(*sync.RWMutex).RLock", "(*sync.RWMutex).RUnlock",
		"(*sync.WaitGroup).Add", "(*sync.WaitGroup).Done", "(*sync.WaitGroup).Wait", "(*sync.Cond).Broadcast", "(*sync.Cond).Signal", "(*sync.Once).Do",
		"(*sync/atomic.Int64).Add", "(*sync/atomic.Int64).Store"} {
		reg(n, "synchronisation primitive: no effect on data (monitor rule A8)", noop)
	}

	// --- condition variables: while waiting the monitor lock is released, so everything other goroutines may touch is arbitrary afterwards
	reg("(*sync.Cond).Wait", "releases the monitor: every heap is arbitrary afterwards (other holders of the lock may have changed anything)", func(c *callCtx) bool {
		x := c.x
		names := map[string]bool{}
		for k := range c.st.vars {
			names[k] = true
		}
		for k := range x.prog.heapSorts {
			names[k] = true
		}
		written := x.prog.globalWrites()
		for _, k := range sortedSet(names) {
			if (strings.HasPrefix(k, "Hf.") || strings.HasPrefix(k, "HA.") || strings.HasPrefix(k, "Hp.") || strings.HasPrefix(k, "HM") || strings.HasPrefix(k, "G.")) && written[k] {
				x.havocVar(c.st, k)
			}
		}
		x.bumpAlloc(c.n, c.st)
		return true
	})
	specMods["(*sync.Cond).Wait"] = func(p *Program, c *ssa.CallCommon) []string {
		var out []string
		for k := range p.globalWrites() {
			out = append(out, k)
		}
		sort.Strings(out)
		return out
	}

	// --- strings: pure functions of their (string) arguments
	reg("strings.HasPrefix", "s starts with p; HasPrefix(s,\"\") is true", func(c *callCtx) bool {
		c.x.vc.declFun("uf_HasPrefix", []string{SStr, SStr}, SBool)
		r := app("uf_HasPrefix", c.args[0].S, c.args[1].S)
		c.n.assume(mkImp(r, app("<=", app("u_slen", c.args[1].S), app("u_slen", c.args[0].S))))
		c.n.assume(mkImp(app("=", app("u_slen", c.args[1].S), "0"), r))
		return boolRes(c, r)
	})
	reg("strings.HasSuffix", "s ends with p", func(c *callCtx) bool {
		c.x.vc.declFun("uf_HasSuffix", []string{SStr, SStr}, SBool)
		r := app("uf_HasSuffix", c.args[0].S, c.args[1].S)
		c.n.assume(mkImp(r, app("<=", app("u_slen", c.args[1].S), app("u_slen", c.args[0].S))))
		return boolRes(c, r)
	})
}

// pureExternal: dependency functions modelled as uninterpreted pure functions of their scalar arguments.
var pureList = map[string]bool{
	"strings.ToLower": true, "strings.ToUpper": true, "strings.TrimSpace": true, "strings.TrimSuffix": true, "strings.TrimPrefix": true, "strings.Trim": true,
	"strings.TrimLeft": true, "strings.TrimRight": true, "strings.Contains": true, "strings.Index": true, "strings.Count": true, "strings.EqualFold": true, "strings.Repeat": true,
	"strings.ReplaceAll": true, "strings.Compare": true, "strings.LastIndex": true, "strings.IndexByte": true, "strings.ContainsAny": true, "strings.ContainsRune": true,
	"strconv.Itoa": true, "strconv.FormatInt": true, "strconv.Quote": true, "strconv.FormatFloat": true,
	"(github.com/prometheus/common/model.Time).Time": true, "(github.com/prometheus/common/model.Time).Unix": true,
	"(github.com/prometheus/prometheus/model/labels.Labels).Hash": true, "(github.com/prometheus/prometheus/model/labels.Labels).Len": true,
	"(github.com/prometheus/prometheus/model/labels.Labels).String": true, "(github.com/prometheus/prometheus/model/labels.Labels).Get": true,
	"(time.Duration).Seconds": true, "(time.Duration).String": true, "(time.Duration).Hours": true, "(time.Duration).Minutes": true, "(time.Duration).Milliseconds": true,
	"(time.Time).Unix": true, "(time.Time).UnixNano": true, "(time.Time).Format": true, "(time.Time).String": true,
	"time.Unix": true, "time.UnixMilli": true,
	"path/filepath.Base": true, "path/filepath.Dir": true, "path/filepath.Clean": true, "path.Base": true, "path.Dir": true, "path.Clean": true,
	"math.Round": true, "math.Floor": true, "math.Ceil": true, "math.Abs": true, "math.IsNaN": true, "math.IsInf": true, "math.Max": true, "math.Min": true,
	"github.com/cloudflare/pint/internal/output.HumanizeDuration": true,
	"regexp.QuoteMeta": true,
	"(*github.com/prometheus/prometheus/promql/parser.VectorSelector).String": true, "(*github.com/prometheus/prometheus/model/labels.Matcher).String": true,
	"net/http.StatusText": true,
	"unicode.IsSpace": true, "unicode.IsLetter": true, "unicode.IsDigit": true, "unicode.IsUpper": true, "unicode.IsLower": true,
	"unicode/utf8.RuneLen": true, "unicode/utf8.RuneCountInString": true,
	// assumption A16: the resolved tag of a decoded YAML node is a function of the node (pint never retags a node)
	"(*gopkg.in/yaml.v3.Node).ShortTag": true,
	// the name validation scheme is set once per parser (parser.NewParser) and not changed while a file is parsed
	"github.com/prometheus/common/model.IsValidMetricName": true,
	"(github.com/prometheus/common/model.LabelName).IsValid": true, "(github.com/prometheus/common/model.LabelValue).IsValid": true,
}

// read-only accessors of the Prometheus query AST (assumption A5): they compute a value from the node and write nothing
var promASTAccessor = regexp.MustCompile(`^\(\*?github\.com/prometheus/prometheus/promql/parser(/posrange)?\.[A-Za-z]+\)\.(PositionRange|String|Type|Pretty|IsComparisonOperator|IsSetOperator|IsAggregator|IsAggregatorWithParam|IsOperator)$`)

func pureExternal(name string) bool {
	if pureList[name] {
		return true
	}
	if promASTAccessor.MatchString(name) {
		return true
	}
	// generic instances print as pkg.Fn[...]; strip instantiation
	if i := strings.Index(name, "["); i > 0 {
		return pureList[name[:i]]
	}
	return false
}

// errorsAsTerms: the (found, value) pair modelling errors.As(err, *T).
func (x *Exec) errorsAsTerms(err Term, t types.Type) (string, Term) {
	s := x.ss.sortOf(t)
	m := mangle(typeKeyShort(t))
	fok, fval := "uf_errors_As_"+m, "uf_errors_AsVal_"+m
	x.vc.declFun(fok, []string{SIface}, SBool)
	x.vc.declFun(fval, []string{SIface}, s)
	ok := app(fok, err.S)
	val := Term{S: app(fval, err.S), Sort: s, T: t}
	tag := x.ss.tagOf(t)
	direct := app("=", app("i.tag", err.S), intLit(int64(tag)))
	x.vc.axiom(mkImp(direct, mkAnd(ok, mkEq(val.S, x.unboxIface(err, t).S))))
	x.vc.axiom(mkImp(app("=", app("i.tag", err.S), "0"), mkNot(ok)))
	return ok, val
}

// globalWrites: heaps that some pint function writes at an object it did not allocate itself. A heap outside this
// set is never changed after construction by any goroutine.
func (p *Program) globalWrites() map[string]bool {
	if p.gwrites != nil {
		return p.gwrites
	}
	p.gwrites = map[string]bool{}
	for _, fn := range p.allFuncs {
		for h := range p.direct(fn).heaps {
			p.gwrites[h] = true
		}
	}
	return p.gwrites
}
