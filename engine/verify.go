package main

import (
	"fmt"
	"go/ast"
	"sort"
	"strconv"
	"go/token"
	"go/types"
	"strings"

	"golang.org/x/tools/go/ssa"
)

var tokenOf = map[string]token.Token{"+": token.ADD, "-": token.SUB, "*": token.MUL, "/": token.QUO, "%": token.REM, "<": token.LSS, "<=": token.LEQ, ">": token.GTR, ">=": token.GEQ,
	"&": token.AND, "|": token.OR, "^": token.XOR, "<<": token.SHL, ">>": token.SHR}

// resultNames: names under which a function's results are visible in its contract.
func resultNames(fc *FuncContract, sig *types.Signature) []string {
	n := sig.Results().Len()
	names := make([]string, n)
	for i := 0; i < n; i++ {
		names[i] = sig.Results().At(i).Name()
		if i < len(fc.ResultNames) && fc.ResultNames[i] != "" {
			names[i] = fc.ResultNames[i]
		}
		if names[i] == "" || names[i] == "_" {
			if n == 1 {
				names[i] = "result"
			} else {
				names[i] = fmt.Sprintf("result%d", i)
			}
		}
	}
	return names
}

// paramEnv: environment for requires/ensures: parameters are entry values, results are the returned values.
func (x *Exec) paramEnv(fc *FuncContract, pkg *types.Package, params map[string]Term, results map[string]Term, cur, old *State) *Env {
	return &Env{x: x, cur: cur, old: old, pkg: pkg, bound: map[string]Term{},
		lookup: func(name string, isCur bool) (Term, bool, error) {
			if t, ok := params[name]; ok {
				return t, true, nil
			}
			if results != nil {
				if t, ok := results[name]; ok {
					return t, true, nil
				}
				if name == "result" && len(results) == 1 {
					for _, t := range results {
						return t, true, nil
					}
				}
			}
			return Term{}, false, nil
		}}
}

func fnPkg(fn *ssa.Function) *types.Package {
	for fn.Parent() != nil {
		fn = fn.Parent()
	}
	if fn.Pkg != nil {
		return fn.Pkg.Pkg
	}
	if o := fn.Origin(); o != nil && o.Pkg != nil {
		return o.Pkg.Pkg
	}
	return nil
}

// bodyEnv: environment for invariants and in-body assertions: names are the source variables in scope at block at.
func (x *Exec) bodyEnv(fr *Frame, n *Node, st *State, at *ssa.BasicBlock) *Env {
	entry := fr.entry
	if entry == nil {
		entry = newState()
	}
	return &Env{x: x, cur: st, old: entry, pkg: fnPkg(fr.fn), bound: map[string]Term{},
		lookup: func(name string, isCur bool) (Term, bool, error) {
			state := st
			if !isCur {
				state = entry
			}
			if fr.depth == 0 && fr.contract != nil {
				for _, g := range fr.contract.Ghosts {
					if g.Name == name {
						t := x.get(state, x.ghostVar(fr, g))
						t.T = x.ghostType(fr, g)
						return t, true, nil
					}
				}
			}
			if name == "iterpos" {
				// byte position of a range-over-string loop
				h := at
				if _, ok := fr.loops.ordinal[h]; !ok {
					h = fr.loops.innermost(at)
				}
				if h != nil {
					for _, in := range h.Instrs {
						if nx, ok := in.(*ssa.Next); ok && nx.IsString {
							if r, ok := nx.Iter.(*ssa.Range); ok {
								t := x.get(state, x.iterName(fr, r))
								t.T = types.Typ[types.Int]
								return t, true, nil
							}
						}
					}
				}
				return Term{}, false, fmt.Errorf("iterpos used outside a range-over-string loop")
			}
			if strings.HasPrefix(name, "range") && isDigits(name[5:]) {
				// rangeN: the slice that range loop N iterates over (evaluated once, before the loop)
				k, _ := strconv.Atoi(name[5:])
				if k >= 1 && k <= len(fr.loops.headers) {
					for _, in := range fr.loops.headers[k-1].Instrs {
						if b, ok := in.(*ssa.BinOp); ok && b.Op == token.LSS {
							if c, ok := b.Y.(*ssa.Call); ok {
								if bi, ok := c.Call.Value.(*ssa.Builtin); ok && bi.Name() == "len" && len(c.Call.Args) == 1 {
									if t, ok := fr.vals[c.Call.Args[0]]; ok {
										t.T = c.Call.Args[0].Type()
										return t, true, nil
									}
								}
							}
						}
					}
				}
				return Term{}, false, fmt.Errorf("%s: not a range-over-slice loop whose operand is known here", name)
			}
			if name == "$visited" || name == "iter" || (strings.HasPrefix(name, "iter") && isDigits(name[4:])) {
				// the loop's own iteration state (iter), or that of the loop with ordinal N (iterN)
				h := at
				if _, ok := fr.loops.ordinal[h]; !ok {
					h = fr.loops.innermost(at)
				}
				if len(name) > 4 && name != "$visited" {
					n, _ := strconv.Atoi(name[4:])
					h = nil
					if n >= 1 && n <= len(fr.loops.headers) {
						h = fr.loops.headers[n-1]
					}
					name = "iter"
				}
				if h == nil {
					return Term{}, false, fmt.Errorf("%s used outside a loop", name)
				}
				for _, in := range h.Instrs {
					if name == "$visited" {
						if nx, ok := in.(*ssa.Next); ok {
							if r, ok := nx.Iter.(*ssa.Range); ok {
								return x.get(state, x.iterName(fr, r)), true, nil
							}
						}
					} else if s, ok := in.(*ssa.Store); ok {
						if a, ok := s.Addr.(*ssa.Alloc); ok && a.Comment == "rangeindex" {
							t := x.get(state, x.cellVar(fr, a))
							return Term{S: app("+", t.S, "1"), Sort: SInt, T: types.Typ[types.Int]}, true, nil
						}
					} else if u, ok := in.(*ssa.UnOp); ok {
						// range-over-int loops are in do-while form: the header is the body and loads the counter first
						if a, ok := u.X.(*ssa.Alloc); ok && a.Comment == "rangeint.iter" {
							t := x.get(state, x.cellVar(fr, a))
							t.T = types.Typ[types.Int]
							return t, true, nil
						}
					}
				}
				return Term{}, false, fmt.Errorf("%s: the loop is not a range loop of the expected kind", name)
			}
			if !isCur {
				// old(name): entry value of a parameter
				for _, p := range fr.fn.Params {
					if p.Name() == name {
						return fr.vals[p], true, nil
					}
				}
			}
			// source variables: allocs whose comment is the name and whose block dominates at
			var best *ssa.Alloc
			seenRep := map[*ssa.Alloc]bool{}
			for _, b := range fr.fn.Blocks {
				for _, in := range b.Instrs {
					a, ok := in.(*ssa.Alloc)
					if !ok || a.Comment != name {
						continue
					}
					if !(b == at || b.Dominates(at)) {
						continue
					}
					rep := a
					if fr.isCell[a] && fr.cellRep[a] != nil {
						rep = fr.cellRep[a]
					}
					if seenRep[rep] {
						continue
					}
					seenRep[rep] = true
					if best == nil || a.Pos() > best.Pos() {
						best = a
					}
				}
			}
			if best != nil {
				if fr.isCell[best] {
					t := x.get(state, x.cellVar(fr, best))
					t.T = deref(best.Type())
					return t, true, nil
				}
				// escaping local: a heap object
				ref, ok := fr.vals[best]
				if !ok {
					return Term{}, false, fmt.Errorf("variable %s is not yet allocated here", name)
				}
				p := x.ptrPlaceT(nil, n, ref, token.NoPos)
				t := x.loadPlace(n, state, p)
				t.T = deref(best.Type())
				return t, true, nil
			}
			for _, p := range fr.fn.Params {
				if p.Name() == name {
					return fr.vals[p], true, nil
				}
			}
			for _, fv := range fr.fn.FreeVars {
				if fv.Name() == name {
					ref := fr.vals[fv]
					p := x.ptrPlaceT(nil, n, ref, token.NoPos)
					t := x.loadPlace(n, state, p)
					t.T = deref(fv.Type())
					return t, true, nil
				}
			}
			return Term{}, false, nil
		}}
}

func (li *loopInfo) innermost(b *ssa.BasicBlock) *ssa.BasicBlock {
	var best *ssa.BasicBlock
	for h, body := range li.body {
		if body[b] {
			if best == nil || len(body) < len(li.body[best]) {
				best = h
			}
		}
	}
	return best
}

// verifyFunction builds the VC of one function under contract.
func (p *Program) verifyFunction(fc *FuncContract, fn *ssa.Function) *VC {
	vc := newVC(fc.Key(), p.ss)
	vc.split = fc.Options["split"] || fc.Options["split32"]
	vc.splitMax = 8
	if fc.Options["split32"] {
		vc.splitMax = 32
	}
	x := &Exec{vc: vc, prog: p, ss: p.ss, maxInline: 3}
	fr := x.newFrame(fn, 0)
	fr.contract = fc
	fr.safe = fc.Safe
	x.top = fr
	entry := vc.newNode("entry")
	st := newState()
	fr.entry = newState()
	params := map[string]Term{}
	for _, prm := range fn.Params {
		t := x.fresh("p_"+prm.Name(), prm.Type())
		fr.vals[prm] = t
		params[prm.Name()] = t
		x.assumeAllocated(entry, st, t)
	}
	// A6: distinct slice parameters of one function do not share a backing array (unless one has no capacity)
	for i, pi := range fn.Params {
		si, ok := types.Unalias(pi.Type()).Underlying().(*types.Slice)
		if !ok {
			continue
		}
		for _, pj := range fn.Params[i+1:] {
			sj, ok := types.Unalias(pj.Type()).Underlying().(*types.Slice)
			if !ok || !types.Identical(si.Elem(), sj.Elem()) {
				continue
			}
			a, b := fr.vals[pi].S, fr.vals[pj].S
			entry.assume(mkOr(app("=", app("s.cap", a), "0"), app("=", app("s.cap", b), "0"), mkNot(app("=", app("s.arr", a), app("s.arr", b)))))
		}
	}
	for _, fv := range fn.FreeVars {
		t := x.fresh("fv_"+fv.Name(), fv.Type())
		fr.vals[fv] = t
		x.assumeAllocated(entry, st, t)
		entry.assume(app(">", t.S, "0"))
	}
	pkg := fnPkg(fn)
	if fn.Parent() != nil {
		// closures: free variables are visible by name in requires/ensures (as their current contents)
		for _, fv := range fn.FreeVars {
			fvv := fv
			params[fv.Name()] = Term{} // placeholder, resolved below
			_ = fvv
		}
	}
	mkEnv := func(results map[string]Term, cur *State, n *Node) *Env {
		env := x.paramEnv(fc, pkg, params, results, cur, fr.entry)
		base := env.lookup
		env.lookup = func(name string, isCur bool) (Term, bool, error) {
			for _, g := range fc.Ghosts {
				if g.Name == name {
					state := cur
					if !isCur {
						state = fr.entry
					}
					t := x.get(state, x.ghostVar(fr, g))
					t.T = x.ghostType(fr, g)
					return t, true, nil
				}
			}
			for _, fv := range fn.FreeVars {
				if fv.Name() == name {
					state := cur
					if !isCur {
						state = fr.entry
					}
					pl := x.ptrPlaceT(nil, n, fr.vals[fv], token.NoPos)
					t := x.loadPlace(n, state, pl)
					t.T = deref(fv.Type())
					return t, true, nil
				}
			}
			return base(name, isCur)
		}
		return env
	}
	for ord := range fc.Loops {
		if ord < 1 || ord > len(fr.loops.headers) {
			x.contractError(fr, Clause{Src: fmt.Sprintf("loop %d", ord), File: fc.File, Line: fc.Line}, fmt.Errorf("the function has %d loops; the contract names loop %d", len(fr.loops.headers), ord))
		}
	}
	for _, g := range fc.Ghosts {
		if _, zero, ok := x.ghostSortZero(fr, g); ok {
			x.set(st, x.ghostVar(fr, g), zero)
			x.set(fr.entry, x.ghostVar(fr, g), zero)
		}
	}
	for _, r := range fc.Requires {
		f, err := x.trBool(r.Expr, mkEnv(nil, st, entry))
		if err != nil {
			x.contractError(fr, r, err)
			continue
		}
		entry.assume(f)
	}
	// package axioms
	x.assumeAxioms(entry, pkg, st)
	names := resultNames(fc, fn.Signature)
	var rets []retRec
	x.runFunction(fr, entry, st, func(n *Node, rst *State, results []Term, ret *ssa.Return) {
		retIdx := fr.retCount
		// at return asserts
		for j, aa := range fc.Asserts {
			if aa.Where != "return" || (aa.Nth != 0 && aa.Nth != retIdx) {
				continue
			}
			if aa.Target != "" {
				t := aa.Target
				after := strings.HasPrefix(t, "after-")
				t = strings.TrimPrefix(t, "after-")
				if !strings.HasPrefix(t, "loop") || !isDigits(t[4:]) {
					x.contractError(fr, aa.Clause, fmt.Errorf("bad return selector %q", aa.Target))
					continue
				}
				k, _ := strconv.Atoi(t[4:])
				if k < 1 || k > len(fr.loops.headers) {
					x.contractError(fr, aa.Clause, fmt.Errorf("no loop %d in %s", k, fc.Key()))
					continue
				}
				h := fr.loops.headers[k-1]
				if !(h.Dominates(ret.Block()) && !fr.loops.body[h][ret.Block()]) {
					continue
				}
				if after && (fr.loops.inAnyLoop(ret.Block()) != nil || insideSourceLoop(fn, ret.Pos())) {
					continue
				}
			}
			env := x.bodyEnv(fr, n, rst, ret.Block())
			baseLookup := env.lookup
			rnames := resultNames(fc, fn.Signature)
			env.lookup = func(name string, isCur bool) (Term, bool, error) {
				for i, rn := range rnames {
					if rn == name && i < len(results) {
						r := results[i]
						r.T = fn.Signature.Results().At(i).Type()
						return r, true, nil
					}
				}
				return baseLookup(name, isCur)
			}
			fr.callCount[fmt.Sprintf("matched-at:%d", j)]++
			f, err := x.trBool(aa.Clause.Expr, env)
			if err != nil {
				x.contractError(fr, aa.Clause, err)
				continue
			}
			ob := &Obligation{Name: fmt.Sprintf("%s#assert%d:return%d", fc.Key(), j+1, retIdx), Kind: "assert", Fn: fc.Key(), Props: clauseProps(fc, aa.Clause), Clause: aa.Clause.Src, Pos: p.pos(ret.Pos())}
			vc.assert(n, f, ob)
		}
		rets = append(rets, retRec{n, rst, results})
	})
	// vacuity of site clauses: an "at ..." or "after call ..." clause that matched no instruction of the function says
	// nothing any more (the code it spoke about is gone): reported like a clause that no longer resolves
	for ai, aa := range fc.Asserts {
		if fr.callCount[fmt.Sprintf("matched-at:%d", ai)] == 0 {
			x.contractError(fr, aa.Clause, fmt.Errorf("the clause matches no %s site of the function any more (at %s %s#%d)", aa.Where, aa.Where, aa.Target, aa.Nth))
		}
	}
	for asi, as := range fc.Afters {
		if fr.callCount[fmt.Sprintf("matched-after:%d", asi)] == 0 {
			x.prog.contractErrors = append(x.prog.contractErrors, contractErr{Fn: fc.Key(), Clause: "after call " + as.Target, Err: "the clause matches no call site of the function any more", Props: fc.Props, Line: fc.Line, File: fc.File})
		}
	}
	if len(rets) == 0 {
		vc.note("%s: no return is reachable", fc.Key())
		return vc
	}
	// all returns flow into one exit node where the postconditions are asserted once
	var ins []incoming
	nres := fn.Signature.Results().Len()
	resT := make([]Term, nres)
	for i := 0; i < nres; i++ {
		resT[i] = x.fresh("res_"+names[i], fn.Signature.Results().At(i).Type())
	}
	for _, r := range rets {
		var as []string
		for i := 0; i < nres && i < len(r.res); i++ {
			as = append(as, mkEq(resT[i].S, r.res[i].S))
		}
		ins = append(ins, incoming{from: r.n, cond: "true", st: r.st, assumes: as, predIdx: -2})
	}
	exit, est := x.join("exit", ins)
	rm := map[string]Term{}
	for i := 0; i < nres; i++ {
		rm[names[i]] = resT[i]
	}
	for i, e := range fc.Ensures {
		if e.Assumed {
			continue
		}
		f, err := x.trBool(e.Expr, mkEnv(rm, est, exit))
		if err != nil {
			x.contractError(fr, e, err)
			continue
		}
		ob := &Obligation{Name: fmt.Sprintf("%s#ensures#%d", fc.Key(), i+1), Kind: "ensures", Fn: fc.Key(), Props: clauseProps(fc, e), Clause: e.Src, Pos: p.pos(fn.Pos())}
		vc.assert(exit, f, ob)
	}
	ob := &Obligation{Name: fmt.Sprintf("%s#cover:exit", fc.Key()), Kind: "cover", Fn: fc.Key(), Props: fc.Props, Clause: "function exit reachable under the preconditions", Expect: "sat", Pos: p.pos(fn.Pos())}
	vc.assert(exit, "true", ob)
	return vc
}

func (x *Exec) assumeAxioms(n *Node, pkg *types.Package, st *State) {
	if x.prog.contracts == nil {
		return
	}
	for _, ax := range x.prog.contracts.axioms {
		var apkg *types.Package
		if sp := x.prog.byName[ax.Pkg]; sp != nil {
			apkg = sp.Pkg
		}
		env := &Env{x: x, cur: st, old: st, pkg: apkg, bound: map[string]Term{}}
		f, err := x.trBool(ax.Clause.Expr, env)
		if err != nil {
			x.prog.contractErrors = append(x.prog.contractErrors, contractErr{Fn: "axiom " + ax.Name, Clause: ax.Clause.Src, Err: err.Error(), Line: ax.Clause.Line, File: ax.Clause.File})
			continue
		}
		x.vc.axiom(f)
	}
}

// applyContract: modular call rule — assert requires, havoc the write set, assume ensures.
func (x *Exec) applyContract(c *callCtx, fc *FuncContract, sig *types.Signature, params []*ssa.Parameter, name string) {
	pm := map[string]Term{}
	for i, prm := range params {
		if i < len(c.args) {
			a := c.args[i]
			a.T = prm.Type()
			pm[prm.Name()] = a
		}
	}
	callee := c.common.StaticCallee()
	var pkg *types.Package
	if callee != nil {
		pkg = fnPkg(callee)
	}
	x.applyContractWith(c, fc, sig, pm, pkg, func() []string {
		if fc.Pure {
			return nil
		}
		if callee != nil {
			pre := x.allocNow(c.st)
			x.bumpAlloc(c.n, c.st)
			for _, h := range x.prog.modFreshList(callee) {
				x.havocFresh(c.n, c.st, h, pre)
			}
			return x.prog.modHeapsList(callee)
		}
		return nil
	})
}

func (x *Exec) applyContractInvoke(c *callCtx, fc *FuncContract, sig *types.Signature, name string) {
	pm := map[string]Term{}
	// receiver is args[0]; parameter names from the interface method signature
	if len(c.args) > 0 {
		pm["self"] = c.args[0]
	}
	for i := 0; i < sig.Params().Len(); i++ {
		if i+1 < len(c.args) {
			a := c.args[i+1]
			a.T = sig.Params().At(i).Type()
			if n := sig.Params().At(i).Name(); n != "" && n != "_" {
				pm[n] = a
			}
			pm[fmt.Sprintf("arg%d", i)] = a
		}
	}
	if len(c.args) > 0 {
		self := c.args[0]
		self.T = c.common.Value.Type()
		pm["self"] = self
	}
	var pkg *types.Package
	if sp := x.prog.byName[fc.Pkg]; sp != nil {
		pkg = sp.Pkg
	}
	x.applyContractWith(c, fc, sig, pm, pkg, func() []string {
		if fc.Pure {
			return nil
		}
		return x.prog.invokeMods(c.common)
	})
}

func (x *Exec) applyContractWith(c *callCtx, fc *FuncContract, sig *types.Signature, pm map[string]Term, pkg *types.Package, mods func() []string) {
	pre := c.st.clone()
	for _, g := range fc.Ghosts {
		// the callee's ghost state is not visible to the caller: an arbitrary value per call
		if g.Type.Kind == "set" {
			if et, err := x.prog.resolveType(g.Type.Elem, pkg); err == nil {
				if _, clash := pm[g.Name]; !clash {
					pm[g.Name] = x.freshSort("ghost_"+g.Name, "(Array "+x.ss.sortOf(et)+" Bool)")
				}
			}
			continue
		}
		if t, err := x.prog.resolveType(g.Type, pkg); err == nil {
			if _, clash := pm[g.Name]; !clash {
				pm[g.Name] = x.fresh("ghost_"+g.Name, t)
			}
		}
	}
	top := x.top
	seq := c.fr.callCount["contract:"+fc.Key()] + 1
	c.fr.callCount["contract:"+fc.Key()] = seq
	for i, r := range fc.Requires {
		env := x.paramEnv(fc, pkg, pm, nil, c.st, pre)
		f, err := x.trBool(r.Expr, env)
		if err != nil {
			x.contractError(c.fr, r, fmt.Errorf("at call from %s: %v", c.fr.fn.Name(), err))
			continue
		}
		if top != nil && top.contract != nil && c.fr.depth == 0 && !fc.AssumeRequires && !containsStr(top.contract.AssumeCallee, fc.Key()) {
			ob := &Obligation{Name: fmt.Sprintf("%s#call:%s#requires%d@%d", top.contract.Key(), fc.Key(), i+1, seq), Kind: "requires", Fn: top.contract.Key(),
				Props: unionProps(top.contract.Props, clauseProps(fc, r)), Clause: r.Src, Pos: x.prog.pos(c.instr.Pos())}
			if c.fr.depth > 0 {
				ob.Name += fmt.Sprintf("(via %s)", c.fr.fn.Name())
			}
			x.vc.assert(c.n, f, ob)
		} else {
			c.n.assume(f)
		}
	}
	for _, h := range mods() {
		x.havocVar(c.st, h)
	}
	c.freshResults(mangle(fc.Name))
	names := resultNames(fc, sig)
	rm := map[string]Term{}
	for i, r := range c.res {
		if i < len(names) {
			rm[names[i]] = r
		}
	}
	for _, e := range fc.Ensures {
		env := x.paramEnv(fc, pkg, pm, rm, c.st, pre)
		env.assumeSide = true
		f, err := x.trBool(e.Expr, env)
		if err != nil {
			x.contractError(c.fr, e, fmt.Errorf("at call from %s: %v", c.fr.fn.Name(), err))
			continue
		}
		c.n.assume(f)
	}
}

func unionProps(a, b []string) []string {
	seen := map[string]bool{}
	var out []string
	for _, s := range append(append([]string{}, a...), b...) {
		if !seen[s] {
			seen[s] = true
			out = append(out, s)
		}
	}
	return out
}

// atCallAsserts: "at call NAME[#k] assert P" clauses of the top-level contract.
func (x *Exec) atCallAsserts(c *callCtx, callee *ssa.Function) bool {
	return x.atAsserts(c.fr, c.n, c.st, "call", calleeNames(callee), c.instr, c.typedArgs()...)
}

// atAsserts places the contract's "at <where> <target>[#k] assert P" clauses before the instruction.
func (x *Exec) atAsserts(fr *Frame, n *Node, st *State, where string, targets []string, instr ssa.Instruction, callArgs ...Term) bool {
	if fr.depth != 0 || fr.contract == nil {
		return false
	}
	any := false
	for ai, aa := range fr.contract.Asserts {
		if aa.Where != where {
			continue
		}
		match := false
		for _, t := range targets {
			if aa.Target == t || strings.HasSuffix(t, "."+aa.Target) {
				match = true
			}
		}
		if !match {
			continue
		}
		ck := fmt.Sprintf("at:%d", ai)
		cnt := fr.callCount[ck] + 1
		fr.callCount[ck] = cnt
		if aa.Nth != 0 {
			if where == "call" {
				if aa.Nth != x.siteOrdinal(fr, aa.Target, instr) {
					continue
				}
			} else if aa.Nth != cnt {
				continue
			}
		}
		fr.callCount[fmt.Sprintf("matched-at:%d", ai)]++
		env := x.bodyEnv(fr, n, st, instr.Block())
		if len(callArgs) > 0 {
			base := env.lookup
			env.lookup = func(name string, isCur bool) (Term, bool, error) {
				if strings.HasPrefix(name, "arg") {
					if k, err := strconv.Atoi(name[3:]); err == nil && k < len(callArgs) {
						return callArgs[k], true, nil
					}
				}
				return base(name, isCur)
			}
		}
		f, err := x.trBool(aa.Clause.Expr, env)
		if err != nil {
			x.contractError(fr, aa.Clause, err)
			continue
		}
		ob := &Obligation{Name: fmt.Sprintf("%s#assert%d:%s-%s@%d", fr.contract.Key(), ai+1, where, aa.Target, cnt), Kind: "assert", Fn: fr.contract.Key(), Props: clauseProps(fr.contract, aa.Clause), Clause: aa.Clause.Src, Pos: x.prog.pos(instr.Pos())}
		x.vc.assert(n, f, ob)
		any = true
	}
	return any
}

func isDigits(s string) bool {
	if s == "" {
		return false
	}
	for _, r := range s {
		if r < '0' || r > '9' {
			return false
		}
	}
	return true
}

// insideSourceLoop: the position lies inside a for/range statement of the function's source.
func insideSourceLoop(fn *ssa.Function, pos token.Pos) bool {
	syn := fn.Syntax()
	if syn == nil || !pos.IsValid() {
		return false
	}
	found := false
	ast.Inspect(syn, func(n ast.Node) bool {
		if n == nil || found {
			return false
		}
		switch n.(type) {
		case *ast.ForStmt, *ast.RangeStmt:
			if n.Pos() <= pos && pos < n.End() {
				found = true
			}
		case *ast.FuncLit:
			return false
		}
		return true
	})
	return found
}

// ghostSortZero: SMT sort and initial value of a ghost variable (Go types, or set[T] as a characteristic array).
func (x *Exec) ghostSortZero(fr *Frame, g GhostVar) (string, string, bool) {
	if g.Type.Kind == "set" {
		et, err := x.prog.resolveType(g.Type.Elem, fnPkg(fr.fn))
		if err != nil {
			x.prog.contractErrors = append(x.prog.contractErrors, contractErr{Fn: fr.contract.Key(), Clause: "ghost " + g.Name, Err: err.Error(), Props: fr.contract.Props})
			return "", "", false
		}
		s := "(Array " + x.ss.sortOf(et) + " Bool)"
		return s, "((as const " + s + ") false)", true
	}
	t := x.ghostType(fr, g)
	if t == nil {
		return "", "", false
	}
	return x.ss.sortOf(t), x.ss.zero(t).S, true
}

func (x *Exec) ghostType(fr *Frame, g GhostVar) types.Type {
	if g.Type.Kind == "set" {
		return nil
	}
	t, err := x.prog.resolveType(g.Type, fnPkg(fr.fn))
	if err != nil {
		x.prog.contractErrors = append(x.prog.contractErrors, contractErr{Fn: fr.contract.Key(), Clause: "ghost " + g.Name, Err: err.Error(), Props: fr.contract.Props})
		return nil
	}
	return t
}

func (x *Exec) ghostVar(fr *Frame, g GhostVar) string {
	name := "ghost." + g.Name
	if _, ok := x.vc.heapSort[name]; !ok {
		s, _, ok := x.ghostSortZero(fr, g)
		if !ok {
			x.vc.heapSort[name] = SInt
		} else {
			x.vc.heapSort[name] = s
			if t := x.ghostType(fr, g); t != nil {
				x.vc.cellType[name] = t
			}
		}
	}
	return name
}

// afterCall applies the contract's "after call TARGET set g = e" ghost updates once the call's results are known.
func (x *Exec) afterCall(c *callCtx, targets []string) {
	fr := c.fr
	if fr.depth != 0 || fr.contract == nil || len(fr.contract.Afters) == 0 {
		return
	}
	type upd struct {
		g GhostVar
		v Term
	}
	var ups []upd
	siteOf := map[string]int{}
	for asi, as := range fr.contract.Afters {
		match := false
		for _, t := range targets {
			if as.Target == t || strings.HasSuffix(t, "."+as.Target) {
				match = true
			}
		}
		if !match {
			continue
		}
		if _, ok := siteOf[as.Target]; !ok {
			siteOf[as.Target] = x.siteOrdinal(fr, as.Target, c.instr)
		}
		if as.Nth != 0 && as.Nth != siteOf[as.Target] {
			continue
		}
		fr.callCount[fmt.Sprintf("matched-after:%d", asi)]++
		env := x.bodyEnv(fr, c.n, c.st, c.instr.Block())
		base := env.lookup
		env.lookup = func(name string, isCur bool) (Term, bool, error) {
			if strings.HasPrefix(name, "result") {
				if name == "result" && len(c.res) == 1 {
					return c.res[0], true, nil
				}
				if k, err := strconv.Atoi(name[6:]); err == nil && k < len(c.res) {
					r := c.res[k]
					if k < len(c.resTypes) {
						r.T = c.resTypes[k]
					}
					return r, true, nil
				}
			}
			if strings.HasPrefix(name, "arg") {
				if k, err := strconv.Atoi(name[3:]); err == nil && k < len(c.args) {
					a := c.args[k]
					if k < len(c.argVals) {
						a.T = c.argVals[k].Type()
					}
					return a, true, nil
				}
			}
			return base(name, isCur)
		}
		var gv *GhostVar
		for i := range fr.contract.Ghosts {
			if fr.contract.Ghosts[i].Name == as.Name {
				gv = &fr.contract.Ghosts[i]
			}
		}
		if gv == nil {
			x.contractError(fr, as.Clause, fmt.Errorf("no ghost variable %q", as.Name))
			continue
		}
		v, err := x.tr(as.Clause.Expr, env)
		if err != nil {
			x.contractError(fr, as.Clause, err)
			continue
		}
		if gs, _, ok := x.ghostSortZero(fr, *gv); ok {
			v = x.coerceNil(v, gs)
			if v.Sort != gs {
				x.contractError(fr, as.Clause, fmt.Errorf("ghost %s has sort %s, value has %s", gv.Name, gs, v.Sort))
				continue
			}
		}
		ups = append(ups, upd{*gv, v})
	}
	for _, u := range ups {
		x.setNamed(c.n, c.st, x.ghostVar(fr, u.g), u.v.S)
	}
}

// siteOrdinal: 1-based position (by source position) of a call instruction among the function's call sites
// whose callee matches the target name.
func (x *Exec) siteOrdinal(fr *Frame, target string, instr ssa.Instruction) int {
	key := "sites:" + target
	if fr.siteIDs == nil {
		fr.siteIDs = map[string]map[ssa.Instruction]int{}
	}
	ids, ok := fr.siteIDs[key]
	if !ok {
		ids = map[ssa.Instruction]int{}
		var sites []ssa.Instruction
		for _, b := range fr.fn.Blocks {
			for _, in := range b.Instrs {
				ci, isCall := in.(ssa.CallInstruction)
				if !isCall {
					continue
				}
				var names []string
				com := ci.Common()
				if _, isGo := in.(*ssa.Go); isGo {
					if target == "go" {
						sites = append(sites, in)
					}
					continue
				}
				if callee := com.StaticCallee(); callee != nil {
					names = calleeNames(callee)
				} else if com.IsInvoke() {
					names = []string{com.Method.Name(), typeKeyShort(com.Value.Type()) + "." + com.Method.Name()}
				} else if b, isB := com.Value.(*ssa.Builtin); isB {
					names = []string{b.Name()}
				}
				for _, t := range names {
					if target == t || strings.HasSuffix(t, "."+target) {
						sites = append(sites, in)
						break
					}
				}
			}
		}
		sort.SliceStable(sites, func(i, j int) bool { return sites[i].Pos() < sites[j].Pos() })
		for i, s := range sites {
			ids[s] = i + 1
		}
		fr.siteIDs[key] = ids
	}
	return ids[instr]
}

func containsStr(xs []string, s string) bool {
	for _, x := range xs {
		if x == s {
			return true
		}
	}
	return false
}
