package main

import (
	"flag"
	"fmt"
	"os"
	"sort"
	"strings"
	"sync"
	"time"

	"golang.org/x/tools/go/ssa"
)

func main() {
	if len(os.Args) < 2 {
		fmt.Fprintln(os.Stderr, "usage: govc <verify|check|loops|selftest> [flags]")
		os.Exit(2)
	}
	switch os.Args[1] {
	case "verify":
		cmdVerify(os.Args[2:])
	case "check":
		cmdCheck(os.Args[2:])
	case "loops":
		cmdLoops(os.Args[2:])
	case "sweep":
		cmdSweep(os.Args[2:])
	default:
		fmt.Fprintln(os.Stderr, "unknown command", os.Args[1])
		os.Exit(2)
	}
}

var allPatterns = []string{"./cmd/pint", "./internal/..."}

func load(repo string) (*Program, error) {
	p, err := loadProgram(repo, allPatterns, nil)
	if err != nil {
		return p, err
	}
	cs, err := loadContracts(repo)
	if err != nil {
		return p, err
	}
	p.contracts = cs
	return p, nil
}

func (p *Program) lookupFunc(key string) *ssa.Function {
	return p.funcByKey[key]
}

// runObligations decides all obligations with a worker pool.
func runObligations(obls []*Obligation, timeoutS int, all bool, dump string, workers int) {
	hf := os.Getenv("GOVC_HINTS")
	if hf == "" {
		hf = "/verif/cache/proof_hints.json"
	}
	loadHints(hf)
	defer saveHints()
	var wg sync.WaitGroup
	ch := make(chan *Obligation)
	for i := 0; i < workers; i++ {
		wg.Add(1)
		go func() {
			defer wg.Done()
			for ob := range ch {
				decide(ob, timeoutS, all, dump)
			}
		}()
	}
	for _, ob := range obls {
		ch <- ob
	}
	close(ch)
	wg.Wait()
}

func cmdVerify(args []string) {
	fs := flag.NewFlagSet("verify", flag.ExitOnError)
	repo := fs.String("repo", "/repo", "repository root")
	fnKey := fs.String("fn", "", "function keys (comma separated); empty = all contracts")
	timeout := fs.Int("timeout", 10, "solver timeout (s)")
	dump := fs.String("dump", "", "directory to dump SMT scripts")
	all := fs.Bool("all-solvers", false, "run every solver")
	verbose := fs.Bool("v", false, "verbose")
	fs.Parse(args)
	t0 := time.Now()
	p, err := load(*repo)
	if err != nil {
		fmt.Fprintln(os.Stderr, "load:", err)
		os.Exit(2)
	}
	fmt.Printf("loaded in %.1fs: %d pint functions, %d contracts, %d lemmas\n", time.Since(t0).Seconds(), len(p.allFuncs), len(p.contracts.funcs), len(p.contracts.lemmas))
	want := map[string]bool{}
	for _, k := range strings.Split(*fnKey, ",") {
		if k != "" {
			want[k] = true
		}
	}
	var obls []*Obligation
	var vcs []*VC
	for _, fc := range p.contracts.funcs {
		if len(want) > 0 && !want[fc.Key()] {
			continue
		}
		if fc.Trusted {
			continue
		}
		fn := p.lookupFunc(fc.Key())
		if fn == nil {
			fmt.Printf("UNBOUND contract %s (%s:%d)\n", fc.Key(), fc.File, fc.Line)
			continue
		}
		vc := p.verifyFunction(fc, fn)
		vcs = append(vcs, vc)
		obls = append(obls, vc.obls...)
	}
	for _, l := range p.contracts.lemmas {
		if len(want) > 0 && !want[l.Key()] {
			continue
		}
		vc := p.verifyLemma(l)
		vcs = append(vcs, vc)
		obls = append(obls, vc.obls...)
	}
	for _, ce := range p.contractErrors {
		fmt.Printf("CONTRACT-ERROR %s: %q: %s (%s:%d)\n", ce.Fn, ce.Clause, ce.Err, ce.File, ce.Line)
	}
	runObligations(obls, *timeout, *all, *dump, 16)
	sort.SliceStable(obls, func(i, j int) bool { return obls[i].Name < obls[j].Name })
	bad := 0
	for _, ob := range obls {
		ok := ob.Status == "discharged" || ob.Status == "cover-ok"
		if !ok {
			bad++
		}
		if *verbose || !ok {
			fmt.Printf("%-14s %-70s %6.2fs %s  [%s] %s\n", ob.Status, ob.Name, ob.TimeS, ob.Solver, ob.Pos, trunc(ob.Clause, 80))
			if !ok || ob.TimeS > 3 {
				fmt.Printf("      tried: %v\n", ob.Tried)
			}
			if !ok && ob.Model != nil && *verbose {
				keys := sortedKeys(ob.Model)
				for _, k := range keys {
					if strings.HasPrefix(k, "v_p_") || (strings.Contains(k, "_r0") && !strings.Contains(k, "noop")) {
						fmt.Printf("      %s = %s\n", k, ob.Model[k])
					}
				}
			}
		}
	}
	for _, vc := range vcs {
		for _, n := range vc.notes {
			if *verbose {
				fmt.Println("note:", n)
			}
		}
	}
	fmt.Printf("%d obligations, %d not ok, %.1fs\n", len(obls), bad, time.Since(t0).Seconds())
	if bad > 0 || len(p.contractErrors) > 0 {
		os.Exit(1)
	}
}

func cmdLoops(args []string) {
	fs := flag.NewFlagSet("loops", flag.ExitOnError)
	repo := fs.String("repo", "/repo", "repository root")
	fnKey := fs.String("fn", "", "function keys")
	fs.Parse(args)
	p, err := load(*repo)
	if err != nil {
		fmt.Fprintln(os.Stderr, "load:", err)
		os.Exit(2)
	}
	for _, k := range strings.Split(*fnKey, ",") {
		fn := p.lookupFunc(k)
		if fn == nil {
			fmt.Println("no such function:", k)
			var cands []string
			for key := range p.funcByKey {
				if strings.Contains(key, k) {
					cands = append(cands, key)
				}
			}
			sort.Strings(cands)
			fmt.Println("  candidates:", cands)
			continue
		}
		li := analyseLoops(fn)
		fmt.Printf("%s: %d loops\n", k, len(li.headers))
		for i, h := range li.headers {
			fmt.Printf("  loop %d: header block %d (%s) at %s, %d blocks\n", i+1, h.Index, h.Comment, p.pos(loopPos(li, h)), len(li.body[h]))
		}
		fmt.Printf("  writes: %v\n", p.modHeapsList(fn))
	}
}


// cmdSweep: zero-annotation safety sweep. Every pint function that contains an instruction of the requested kind
// is verified with the synthetic contract "safe <kinds>" (no preconditions). A failure here is NOT a violation:
// it is a candidate to look at (the missing precondition may well hold at every call site).
func cmdSweep(args []string) {
	fs := flag.NewFlagSet("sweep", flag.ExitOnError)
	repo := fs.String("repo", "/repo", "repository root")
	kinds := fs.String("kinds", "type-assert", "safety kinds")
	pkgFilter := fs.String("pkg", "", "only functions whose key starts with this package name")
	timeout := fs.Int("timeout", 5, "solver timeout")
	fs.Parse(args)
	p, err := load(*repo)
	if err != nil {
		fmt.Fprintln(os.Stderr, "load:", err)
		os.Exit(2)
	}
	ks := strings.Split(*kinds, ",")
	var obls []*Obligation
	nf := 0
	for _, fn := range p.allFuncs {
		if fn.Parent() != nil || len(fn.Blocks) == 0 || fn.Synthetic != "" {
			continue
		}
		key := funcKey(fn)
		if *pkgFilter != "" && !strings.HasPrefix(key, *pkgFilter+".") {
			continue
		}
		if p.contracts.byKey[key] != nil {
			continue
		}
		interesting := false
		for _, b := range fn.Blocks {
			for _, in := range b.Instrs {
				if ta, ok := in.(*ssa.TypeAssert); ok && !ta.CommaOk {
					interesting = true
				}
			}
		}
		if !interesting {
			continue
		}
		nf++
		fc := &FuncContract{Pkg: strings.SplitN(key, ".", 2)[0], Name: strings.SplitN(key, ".", 2)[1], Loops: map[int]*LoopSpec{}, Safe: true, SafeKinds: ks, Props: []string{"sweep"}}
		func() {
			defer func() {
				if r := recover(); r != nil {
					fmt.Printf("ENGINE-ERROR %s: %v\n", key, r)
				}
			}()
			vc := p.verifyFunction(fc, fn)
			for _, ob := range vc.obls {
				if ob.Kind == "safe" {
					obls = append(obls, ob)
				}
			}
		}()
	}
	runObligations(obls, *timeout, false, "", 16)
	proved, open := 0, 0
	for _, ob := range obls {
		if ob.Status == "discharged" {
			proved++
		} else {
			open++
			fmt.Printf("open  %-60s %s [%s]\n", ob.Name, ob.Status, ob.Pos)
		}
	}
	fmt.Printf("sweep %s: %d functions, %d obligations, %d proved, %d open\n", *kinds, nf, len(obls), proved, open)
}
