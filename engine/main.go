package main

import (
	"fmt"

	_ "golang.org/x/tools/go/packages"
	_ "golang.org/x/tools/go/ssa"
	_ "golang.org/x/tools/go/ssa/ssautil"
)

func main() { fmt.Println("govc") }
