package main

import (
	"os"
	"fmt"
	"go/types"
	"strings"

	"golang.org/x/tools/go/ssa"
)

// callCtx is what a call-site handler sees.
type callCtx struct {
	x      *Exec
	fr     *Frame
	n      *Node
	st     *State
	args   []Term
	argVals []ssa.Value
	instr  ssa.Instruction
	common *ssa.CallCommon
	res    []Term // to be filled
	resTypes []types.Type
}

func (c *callCtx) typedArgs() []Term {
	out := make([]Term, len(c.args))
	for i, a := range c.args {
		if i < len(c.argVals) {
			a.T = c.argVals[i].Type()
		}
		out[i] = a
	}
	return out
}

func (c *callCtx) freshResults(hint string) {
	c.res = nil
	for i, t := range c.resTypes {
		r := c.x.fresh(fmt.Sprintf("%s_r%d", hint, i), t)
		c.res = append(c.res, r)
		c.x.assumeAllocated(c.n, c.st, r)
		if r.Sort == SIface || r.Sort == SSlice {
			// nothing more known
		}
	}
}

func resultTypes(sig *types.Signature) []types.Type {
	var ts []types.Type
	for i := 0; i < sig.Results().Len(); i++ {
		ts = append(ts, sig.Results().At(i).Type())
	}
	return ts
}

// calleeNames: the names under which a callee can be targeted by at/after clauses (generic instances by their origin).
func calleeNames(fn *ssa.Function) []string {
	if o := fn.Origin(); o != nil {
		fn = o
	}
	return []string{fn.Name(), funcKey(fn)}
}

func calleeName(fn *ssa.Function) string {
	if o := fn.Origin(); o != nil {
		fn = o
	}
	return fn.String()
}

func (x *Exec) execCall(fr *Frame, n *Node, st *State, instr ssa.Instruction, common *ssa.CallCommon, val *ssa.Call) *Node {
	c := &callCtx{x: x, fr: fr, n: n, st: st, instr: instr, common: common}
	c.resTypes = resultTypes(common.Signature())
	if common.IsInvoke() {
		c.args = append(c.args, x.val(fr, n, st, common.Value))
		c.argVals = append(c.argVals, common.Value)
	}
	for _, a := range common.Args {
		c.args = append(c.args, x.val(fr, n, st, a))
		c.argVals = append(c.argVals, a)
	}
	x.dispatchCall(c)
	if callee := common.StaticCallee(); callee != nil {
		x.afterCall(c, calleeNames(callee))
	} else if common.IsInvoke() {
		x.afterCall(c, []string{common.Method.Name(), typeKeyShort(common.Value.Type()) + "." + common.Method.Name()})
	}
	if val != nil {
		switch len(c.resTypes) {
		case 0:
		case 1:
			if len(c.res) == 1 {
				r := c.res[0]
				r.T = val.Type()
				fr.vals[val] = x.nameTerm(c.n, val.Name(), r)
			} else {
				fr.vals[val] = x.fresh("callres", val.Type())
			}
		default:
			if len(c.res) == len(c.resTypes) {
				fr.tuples[val] = c.res
			} else {
				var rs []Term
				for _, t := range c.resTypes {
					rs = append(rs, x.fresh("callres", t))
				}
				fr.tuples[val] = rs
			}
		}
	}
	return c.n
}

func (x *Exec) dispatchCall(c *callCtx) {
	common := c.common
	fr := c.fr
	if b, ok := common.Value.(*ssa.Builtin); ok && !common.IsInvoke() {
		x.callBuiltin(c, b)
		return
	}
	if common.IsInvoke() {
		x.callInvoke(c)
		return
	}
	callee := common.StaticCallee()
	var ci *closureInfo
	if callee == nil {
		if k, ok := fr.closures[common.Value]; ok {
			callee = k.fn
			ci = k
		}
	} else if mc, ok := common.Value.(*ssa.MakeClosure); ok {
		ci = fr.closures[mc]
	}
	if callee == nil {
		// dynamic function value
		x.vc.note("%s: call through a function value; results unconstrained, effects = union of address-taken pint functions of that signature", fr.fn.Name())
		for _, h := range x.prog.dynCallMods(common.Signature()) {
			x.havocVar(c.st, h)
		}
		c.freshResults("dyn")
		return
	}
	x.callStatic(c, callee, ci)
}

func (x *Exec) callStatic(c *callCtx, callee *ssa.Function, ci *closureInfo) {
	name := calleeName(callee)
	c.fr.callCount["call:"+name]++
	if x.atCallAsserts(c, callee) {
		// assertions placed before this call by the contract
	}
	if x.prog.contracts != nil {
		if sfName, ok := x.prog.contracts.binds[name]; ok {
			if sf := x.prog.contracts.specs[sfName]; sf != nil {
				env := &Env{x: x, cur: c.st, old: c.st, bound: map[string]Term{}}
				args := append([]Term{}, c.args...)
				r, err := x.applySpec(sf, args, env)
				if err == nil {
					r.T = c.resTypes[0]
					c.res = []Term{r}
					specUsed["bind "+name+" = "+sfName] = true
					specDoc["bind "+name+" = "+sfName] = "dependency function modelled by the specification function " + sfName
					return
				}
				x.prog.contractErrors = append(x.prog.contractErrors, contractErr{Fn: "bind " + name, Clause: sfName, Err: err.Error()})
			}
		}
	}
	if h, ok := specTable[name]; ok {
		if h(c) {
			specUsed[name] = true
			return
		}
	}
	if fc := x.prog.contractFor(callee); fc != nil && !(c.fr.contract == fc && c.fr.depth == 0 && false) {
		x.applyContract(c, fc, callee.Signature, callee.Params, name)
		return
	}
	if x.prog.isPint(callee) && len(callee.Blocks) > 0 {
		// a function that promises not to panic (`safe callee-panics`) may only call code without a contract if that code
		// cannot reach an explicit panic / Must* call: what such a callee needs is then a contract, not trust
		if c.fr.safe && c.fr.depth == 0 {
			if why := x.prog.mayPanic(callee, map[*ssa.Function]bool{}, 0); why != "" {
				x.safety(c.fr, c.n, "false", "callee-panics", c.instr.Pos(), callee.Name())
				x.vc.note("%s: callee %s can reach %s", c.fr.fn.Name(), callee.Name(), why)
			}
		}
		if x.canInline(c.fr, callee) {
			x.inlineCall(c, callee, ci)
			return
		}
		pre := x.allocNow(c.st)
		x.havocCalleeEffects(c.n, c.st, callee)
		c.freshResults(mangle(callee.Name()))
		if x.prog.isolated[callee] {
			// everything the results refer to was allocated by the call
			for _, r := range c.res {
				switch r.Sort {
				case SSlice:
					c.n.assume(mkOr(app("=", app("s.arr", r.S), "0"), app(">=", app("s.arr", r.S), pre)))
				case SInt:
					if _, isPtr := types.Unalias(r.T).Underlying().(*types.Pointer); isPtr {
						c.n.assume(mkOr(app("=", r.S, "0"), app(">=", r.S, pre)))
					}
				}
			}
		}
		return
	}
	// external function without a model
	x.externalCall(c, name)
}

func (x *Exec) canInline(fr *Frame, callee *ssa.Function) bool {
	if fr.depth >= x.maxInline {
		return false
	}
	for f := fr; f != nil; f = f.parent {
		if f.fn == callee {
			return false
		}
	}
	size := 0
	for _, b := range callee.Blocks {
		size += len(b.Instrs)
	}
	limit := 300
	if fr.depth >= 1 {
		limit = 120
	}
	if len(analyseLoops(callee).headers) > 0 {
		return false // loops are only handled in functions under contract; the write-set summary is used instead
	}
	if size > limit || x.inlined+size > 2500 {
		return false
	}
	x.inlined += size
	return true
}

type retRec struct {
	n   *Node
	st  *State
	res []Term
}

func (x *Exec) inlineCall(c *callCtx, callee *ssa.Function, ci *closureInfo) {
	fr2 := x.newFrame(callee, c.fr.depth+1)
	fr2.parent = c.fr
	fr2.entry = c.st
	for i, p := range callee.Params {
		if i < len(c.args) {
			a := c.args[i]
			a.T = p.Type()
			fr2.vals[p] = a
		}
	}
	if ci != nil {
		for i, fv := range callee.FreeVars {
			if i < len(ci.bindings) {
				b := ci.bindings[i]
				b.T = fv.Type()
				fr2.vals[fv] = b
			}
		}
	} else {
		for _, fv := range callee.FreeVars {
			fr2.vals[fv] = x.fresh("freevar", fv.Type())
		}
	}
	var rets []retRec
	start := x.vc.newNode("inline." + callee.Name())
	x.vc.link(c.n, start, "true", nil)
	x.runFunction(fr2, start, c.st.clone(), func(n *Node, st *State, results []Term, _ *ssa.Return) {
		rets = append(rets, retRec{n, st, results})
	})
	if len(rets) == 0 {
		dead := x.vc.newNode("inline.noreturn." + callee.Name())
		x.vc.link(start, dead, "false", nil)
		c.n = dead
		c.freshResults("noret")
		return
	}
	var ins []incoming
	c.res = nil
	for i, t := range c.resTypes {
		_ = i
		c.res = append(c.res, x.fresh("ret_"+mangle(callee.Name()), t))
	}
	if len(rets) == 1 {
		c.res = rets[0].res
		for i := range c.res {
			if i < len(c.resTypes) {
				c.res[i].T = c.resTypes[i]
			}
		}
		ins = append(ins, incoming{from: rets[0].n, cond: "true", st: rets[0].st})
	} else {
		for _, r := range rets {
			var as []string
			for i := range c.res {
				if i < len(r.res) {
					as = append(as, mkEq(c.res[i].S, r.res[i].S))
				}
			}
			ins = append(ins, incoming{from: r.n, cond: "true", st: r.st, assumes: as})
		}
	}
	after, merged := x.join("after."+callee.Name(), ins)
	// drop the callee's private cells from the merged state
	prefix := fmt.Sprintf("c%d.", fr2.id)
	for k := range merged.vars {
		if strings.HasPrefix(k, prefix) || strings.HasPrefix(k, fmt.Sprintf("it%d.", fr2.id)) {
			delete(merged.vars, k)
		}
	}
	c.st.vars = merged.vars
	c.n = after
}

// havocCallee applies a callee's possible effects without executing it (go statements, conditional defers).
func (x *Exec) havocCallee(fr *Frame, n *Node, st *State, common *ssa.CallCommon) {
	if callee := common.StaticCallee(); callee != nil {
		if x.prog.isPint(callee) {
			x.havocCalleeEffects(n, st, callee)
			return
		}
		if _, ok := specTable[calleeName(callee)]; ok {
			return
		}
		for _, h := range x.prog.externalMods(callee.Signature, common.Args) {
			x.havocVar(st, h)
		}
		return
	}
	if common.IsInvoke() {
		for _, h := range x.prog.invokeMods(common) {
			x.havocVar(st, h)
		}
		return
	}
	for _, h := range x.prog.dynCallMods(common.Signature()) {
		x.havocVar(st, h)
	}
}

func (x *Exec) externalCall(c *callCtx, name string) {
	if pureExternal(name) {
		x.pureUF(c, name)
		return
	}
	x.bumpAlloc(c.n, c.st)
	for _, h := range x.prog.externalMods(c.common.Signature(), c.common.Args) {
		if os.Getenv("GOVC_DEBUG_HAVOC") != "" {
			fmt.Fprintf(os.Stderr, "havoc %s by external %s at %s\n", h, name, x.prog.pos(c.instr.Pos()))
		}
		x.havocVar(c.st, h)
	}
	// places passed by address (cells) may be written by the callee
	for _, a := range c.argVals {
		if p, ok := c.fr.places[a]; ok && p.kind != pObj {
			x.storePlace(c.n, c.st, p, x.fresh("extwrite", p.typ))
		}
	}
	c.freshResults(mangle(lastDot(name)))
	x.prog.noteExternal(name)
}

func lastDot(s string) string {
	if i := strings.LastIndexAny(s, "./)"); i >= 0 {
		return s[i+1:]
	}
	return s
}

// pureUF models a side-effect-free deterministic function of scalar arguments as an uninterpreted function.
func (x *Exec) pureUF(c *callCtx, name string) {
	var sorts, args []string
	for _, a := range c.args {
		sorts = append(sorts, a.Sort)
		args = append(args, a.S)
	}
	c.res = nil
	for i, t := range c.resTypes {
		f := fmt.Sprintf("uf_%s_%d", mangle(name), i)
		rs := x.ss.sortOf(t)
		if len(args) == 0 {
			x.vc.declConst(f, rs)
			c.res = append(c.res, Term{S: f, Sort: rs, T: t})
			continue
		}
		x.vc.declFun(f, sorts, rs)
		r := Term{S: app(f, args...), Sort: rs, T: t}
		c.res = append(c.res, r)
	}
}

func (x *Exec) callInvoke(c *callCtx) {
	m := c.common.Method
	recvT := c.common.Value.Type()
	iname := typeKeyShort(recvT) + "." + m.Name()
	c.fr.callCount["call:"+iname]++
	x.atAsserts(c.fr, c.n, c.st, "call", []string{m.Name(), iname}, c.instr, c.typedArgs()...)
	if h, ok := specTable[iname]; ok {
		if h(c) {
			return
		}
	}
	if len(c.args) == 1 && typeKeyShort(recvT) == "checks.RuleChecker" && (m.Name() == "String" || m.Name() == "Reporter" || m.Name() == "Meta") {
		// niladic methods of check values are deterministic functions of the receiver (assumption A11): the call
		// yields the same term a specification gets for check.M()
		env := &Env{x: x, cur: c.st, old: c.st, bound: map[string]Term{}}
		recv := c.args[0]
		recv.T = recvT
		if t, ok := x.ifaceMethodValue(recv, m.Name(), env); ok {
			c.res = []Term{x.nameTerm(c.n, "meth_"+m.Name(), t)}
			return
		}
	}
	if fc := x.prog.contractForInvoke(recvT, m.Name()); fc != nil {
		sig := m.Type().(*types.Signature)
		x.applyContractInvoke(c, fc, sig, iname)
		return
	}
	impls := x.prog.implementations(recvT, m.Name())
	if len(impls) == 1 && x.canInline(c.fr, impls[0]) && x.prog.contractFor(impls[0]) == nil && false {
		// (devirtualising a single implementation is unsound if a dependency also implements the interface)
	}
	for _, h := range x.prog.invokeMods(c.common) {
		x.havocVar(c.st, h)
	}
	c.freshResults(mangle(m.Name()))
}

// ---------------------------------------------------------------------------
// builtins

func (x *Exec) callBuiltin(c *callCtx, b *ssa.Builtin) {
	n, st := c.n, c.st
	x.atAsserts(c.fr, n, st, "call", []string{b.Name()}, c.instr)
	switch b.Name() {
	case "len", "cap":
		a := c.args[0]
		var r string
		switch u := types.Unalias(c.argVals[0].Type()).Underlying().(type) {
		case *types.Slice:
			r = app("s."+b.Name(), a.S)
		case *types.Basic:
			r = app("u_slen", a.S)
		case *types.Map:
			d, _ := x.heapMap(u)
			ks := x.ss.sortOf(u.Key())
			f := "uf_maplen_" + mangle(ks)
			x.vc.declFun(f, []string{"(Array " + ks + " Bool)"}, SInt)
			dom := app("select", x.get(st, d).S, a.S)
			r = mkIte(app("=", a.S, "0"), "0", app(f, dom))
			x.vc.axiom(app(">=", app(f, dom), "0"))
			x.vc.axiom(mkEq(app(f, "((as const (Array "+ks+" Bool)) false)"), "0"))
		case *types.Pointer:
			if arr, ok := u.Elem().Underlying().(*types.Array); ok {
				r = intLit(arr.Len())
			}
		case *types.Array:
			r = intLit(u.Len())
		case *types.Chan:
			t := x.fresh("chanlen", types.Typ[types.Int])
			n.assume(app(">=", t.S, "0"))
			r = t.S
		}
		if r == "" {
			r = x.fresh("len", types.Typ[types.Int]).S
		}
		c.res = []Term{{S: r, Sort: SInt, T: types.Typ[types.Int]}}
	case "append":
		x.builtinAppend(c)
	case "copy":
		dst := c.args[0]
		if sl, ok := types.Unalias(c.argVals[0].Type()).Underlying().(*types.Slice); ok {
			h := x.heapElem(sl.Elem())
			// contents of dst's array change arbitrarily within it; other arrays unchanged
			old := x.get(st, h).S
			na := x.freshSort("copied", "(Array Int "+x.ss.sortOf(sl.Elem())+")")
			x.setNamed(n, st, h, app("store", old, app("s.arr", dst.S), na.S))
		}
		r := x.fresh("copied_n", types.Typ[types.Int])
		n.assume(app(">=", r.S, "0"))
		c.res = []Term{r}
	case "delete":
		m := c.args[0]
		if mt, ok := types.Unalias(c.argVals[0].Type()).Underlying().(*types.Map); ok {
			d, _ := x.heapMap(mt)
			dh := x.get(st, d).S
			x.setNamed(n, st, d, mkIte(app("=", m.S, "0"), dh, app("store", dh, m.S, app("store", app("select", dh, m.S), c.args[1].S, "false"))))
		}
	case "min", "max":
		r := c.args[0]
		for _, a := range c.args[1:] {
			if r.Sort == SInt {
				r = Term{S: app("go_"+b.Name(), r.S, a.S), Sort: SInt}
			} else {
				op := "<"
				if b.Name() == "max" {
					op = ">"
				}
				cmp := app(op, r.S, a.S)
				if r.Sort == SStr {
					cmp = app("u_slt", r.S, a.S)
					if b.Name() == "max" {
						cmp = app("u_slt", a.S, r.S)
					}
				}
				r = Term{S: mkIte(cmp, r.S, a.S), Sort: r.Sort}
			}
		}
		c.res = []Term{r}
	case "close", "print", "println", "clear":
		if b.Name() == "clear" {
			x.vc.note("%s: builtin clear not modelled", c.fr.fn.Name())
		}
	case "ssa:wrapnilchk":
		c.res = []Term{c.args[0]}
	case "ssa:deferstack":
		c.res = []Term{{S: "0", Sort: SInt}}
	case "recover":
		c.res = []Term{{S: "niliface", Sort: SIface}}
	case "panic":
		if c.fr.safe && c.fr.depth == 0 {
			x.safety(c.fr, n, "false", "panic", c.instr.Pos())
		} else {
			n.assume("false")
		}
	default:
		x.vc.note("%s: builtin %s not modelled", c.fr.fn.Name(), b.Name())
		c.freshResults(b.Name())
	}
}

// builtinAppend: append(s, t...). The result either reuses s's array (when capacity allows) or a fresh one.
func (x *Exec) builtinAppend(c *callCtx) {
	n, st := c.n, c.st
	s := c.args[0]
	t := c.args[1]
	sl, ok := types.Unalias(c.argVals[0].Type()).Underlying().(*types.Slice)
	if !ok {
		c.freshResults("append")
		return
	}
	if _, isStr := types.Unalias(c.argVals[1].Type()).Underlying().(*types.Basic); isStr {
		// append([]byte, string...)
		r := x.fresh("appendstr", c.argVals[0].Type())
		n.assume(mkAnd(wfSlice(r.S), app("=", app("s.len", r.S), app("+", app("s.len", s.S), app("u_slen", t.S)))))
		h := x.heapElem(sl.Elem())
		x.havocVar(st, h)
		c.res = []Term{r}
		return
	}
	h := x.heapElem(sl.Elem())
	es := x.ss.sortOf(sl.Elem())
	heap := x.get(st, h).S
	// number of appended elements, statically known for the varargs idiom
	k := -1
	if sv, ok := c.argVals[1].(*ssa.Slice); ok {
		if al, ok := sv.X.(*ssa.Alloc); ok && sv.Low == nil && sv.High == nil {
			if arr, ok := deref(al.Type()).Underlying().(*types.Array); ok {
				k = int(arr.Len())
			}
		}
	}
	if cst, ok := c.argVals[1].(*ssa.Const); ok && cst.Value == nil {
		k = 0
	}
	if k == 0 {
		c.res = []Term{s}
		return
	}
	fresh := x.allocRef(n, st, "append_arr")
	inplace := x.vc.freshConst("append_inplace", SBool)
	newLen := x.vc.freshConst("append_len", SInt)
	newCap := x.vc.freshConst("append_cap", SInt)
	tl := app("s.len", t.S)
	n.assume(mkEq(newLen, app("+", app("s.len", s.S), tl)))
	n.assume(mkEq(inplace, app("<=", newLen, app("s.cap", s.S))))
	n.assume(mkIte(inplace, mkEq(newCap, app("s.cap", s.S)), app(">=", newCap, newLen)))
	arr := x.vc.freshConst("append_ref", SInt)
	n.assume(mkEq(arr, mkIte(inplace, app("s.arr", s.S), fresh)))
	off := app("s.off", s.S)
	srcArr := app("select", heap, app("s.arr", s.S))
	tArr := app("select", heap, app("s.arr", t.S))
	var newArr string
	if k > 0 && k <= 8 {
		newArr = srcArr
		for i := 0; i < k; i++ {
			newArr = app("store", newArr, plus(plus(off, app("s.len", s.S)), intLit(int64(i))), app("select", tArr, plus(app("s.off", t.S), intLit(int64(i)))))
		}
		nh := x.vc.freshConst(shortVar(h)+"_app", x.varSort(h))
		n.assume(mkEq(nh, app("store", heap, arr, newArr)))
		x.set(st, h, nh)
	} else {
		na := x.vc.freshConst("append_elems", "(Array Int "+es+")")
		// elements below the old length are kept, appended elements copied, the rest (beyond the new length) as in the source array
		n.assume(fmt.Sprintf("(forall ((j Int)) (! (= (select %s j) (ite (and (>= j (+ %s %s)) (< j (+ %s %s))) (select %s (+ (- j (+ %s %s)) %s)) (select %s j))) :pattern ((select %s j))))",
			na, off, app("s.len", s.S), off, newLen, tArr, off, app("s.len", s.S), app("s.off", t.S), srcArr, na))
		nh := x.vc.freshConst(shortVar(h)+"_app", x.varSort(h))
		n.assume(mkEq(nh, app("store", heap, arr, na)))
		x.set(st, h, nh)
	}
	r := Term{S: app("mk_Slice", arr, off, newLen, newCap), Sort: SSlice, T: c.argVals[0].Type()}
	c.res = []Term{x.nameTerm(n, "appended", r)}
	if k > 0 && k <= 8 && simpleConst(c.res[0].S) {
		// seed the specification-level access terms of the appended cells (instances of the defining axiom of uf_at)
		nh := x.get(st, h).S
		for i := 0; i < k; i++ {
			idx := plus(app("s.len", s.S), intLit(int64(i)))
			n.assume(mkEq(x.elemAt(h, nh, c.res[0].S, idx, es), app("select", tArr, plus(app("s.off", t.S), intLit(int64(i))))))
		}
	}
	if (k < 0 || k > 8) && simpleConst(heap) && simpleConst(c.res[0].S) && simpleConst(t.S) {
		// append(s, t...): the same definition at the level of the specification access (consequences of the model):
		// the result holds s's elements, then t's
		nh := x.get(st, h).S
		a, b := x.elemAt(h, nh, c.res[0].S, "i", es), x.elemAt(h, heap, s.S, "i", es)
		n.assume(fmt.Sprintf("(forall ((i Int)) (! (=> (and (<= 0 i) (< i (s.len %s))) (= %s %s)) :pattern (%s) :pattern (%s)))", s.S, a, b, a, b))
		ta := x.elemAt(h, heap, t.S, "i", es)
		ra := x.elemAt(h, nh, c.res[0].S, app("+", app("s.len", s.S), "i"), es)
		n.assume(fmt.Sprintf("(forall ((i Int)) (! (=> (and (<= 0 i) (< i (s.len %s))) (= %s %s)) :pattern (%s)))", t.S, ra, ta, ta))
	} else if x.elemLinksOn() && simpleConst(heap) && simpleConst(c.res[0].S) {
		// a consequence of the model above, stated for both triggers: the result has the old elements as its prefix
		nh := x.get(st, h).S
		a, b := x.elemAt(h, nh, c.res[0].S, "i", es), x.elemAt(h, heap, s.S, "i", es)
		n.assume(fmt.Sprintf("(forall ((i Int)) (! (=> (and (<= 0 i) (< i (s.len %s))) (= %s %s)) :pattern (%s) :pattern (%s)))", s.S, a, b, a, b))
	}
}


// mayPanic: the function, or a pint function without a contract that it calls (transitively, statically), contains an
// explicit panic or calls one of the listed Must-style dependency functions. Returns what it found ("" = nothing).
func (p *Program) mayPanic(fn *ssa.Function, seen map[*ssa.Function]bool, depth int) string {
	if fn == nil || seen[fn] || depth > 6 {
		return ""
	}
	seen[fn] = true
	for _, b := range fn.Blocks {
		for _, in := range b.Instrs {
			if pn, ok := in.(*ssa.Panic); ok {
				return "panic at " + p.pos(pn.Pos())
			}
			ci, ok := in.(ssa.CallInstruction)
			if !ok {
				continue
			}
			callee := ci.Common().StaticCallee()
			if callee == nil {
				continue
			}
			name := calleeName(callee)
			switch name {
			case "regexp.MustCompile", "regexp.MustCompilePOSIX", "text/template.Must", "html/template.Must":
				return name + " at " + p.pos(ci.Pos())
			}
			if p.isPint(callee) && len(callee.Blocks) > 0 && p.contractFor(callee) == nil {
				if why := p.mayPanic(callee, seen, depth+1); why != "" {
					return why
				}
			}
		}
	}
	return ""
}
