package main

import (
	"fmt"
	"go/types"
	"hash/fnv"
	"sort"
	"strings"
)

// Term is an SMT-LIB term together with its sort and (when known) the Go type it stands for.
type Term struct {
	S    string
	Sort string
	T    types.Type // may be nil for pure spec values
}

func (t Term) String() string { return t.S }

const (
	SInt   = "Int"
	SBool  = "Bool"
	SReal  = "Real"
	SStr   = "Str"
	SSlice = "Slice"
	SIface = "Iface"
)

func app(op string, args ...string) string {
	return "(" + op + " " + strings.Join(args, " ") + ")"
}

func tTrue() Term  { return Term{S: "true", Sort: SBool, T: types.Typ[types.Bool]} }
func tFalse() Term { return Term{S: "false", Sort: SBool, T: types.Typ[types.Bool]} }
func tBool(s string) Term {
	return Term{S: s, Sort: SBool, T: types.Typ[types.Bool]}
}
func tInt(s string) Term { return Term{S: s, Sort: SInt, T: types.Typ[types.Int]} }
func intLit(n int64) string {
	if n < 0 {
		return fmt.Sprintf("(- %d)", -n)
	}
	return fmt.Sprintf("%d", n)
}

func mkAnd(xs ...string) string {
	var ys []string
	for _, x := range xs {
		if x == "true" {
			continue
		}
		if x == "false" {
			return "false"
		}
		ys = append(ys, x)
	}
	switch len(ys) {
	case 0:
		return "true"
	case 1:
		return ys[0]
	}
	return app("and", ys...)
}

func mkOr(xs ...string) string {
	var ys []string
	for _, x := range xs {
		if x == "false" {
			continue
		}
		if x == "true" {
			return "true"
		}
		ys = append(ys, x)
	}
	switch len(ys) {
	case 0:
		return "false"
	case 1:
		return ys[0]
	}
	return app("or", ys...)
}

func mkNot(x string) string {
	if x == "true" {
		return "false"
	}
	if x == "false" {
		return "true"
	}
	if strings.HasPrefix(x, "(not ") && balanced(x[5:len(x)-1]) {
		return x[5 : len(x)-1]
	}
	return app("not", x)
}

func balanced(s string) bool {
	d := 0
	for i := 0; i < len(s); i++ {
		switch s[i] {
		case '(':
			d++
		case ')':
			d--
			if d < 0 {
				return false
			}
		case '|':
			// quoted symbol: skip
			j := strings.IndexByte(s[i+1:], '|')
			if j < 0 {
				return false
			}
			i += j + 1
		}
	}
	return d == 0
}

func mkImp(a, b string) string {
	if a == "true" {
		return b
	}
	if a == "false" || b == "true" {
		return "true"
	}
	return app("=>", a, b)
}

func mkEq(a, b string) string {
	if a == b {
		return "true"
	}
	return app("=", a, b)
}

func mkIte(c, a, b string) string {
	if c == "true" {
		return a
	}
	if c == "false" {
		return b
	}
	if a == b {
		return a
	}
	return app("ite", c, a, b)
}

// ---------------------------------------------------------------------------
// Sort registry: Go types -> SMT sorts, struct datatypes, zero values.

type structInfo struct {
	name   string
	fields []fieldInfo
	st     *types.Struct
	deps   []string // sorts of fields that are datatypes
}

type fieldInfo struct {
	name string // Go field name
	acc  string // SMT accessor
	sort string
	typ  types.Type
}

type Sorts struct {
	byKey   map[string]*structInfo // canonical type string -> info
	byName  map[string]*structInfo
	names   map[string]int
	order   []*structInfo
	strLits map[string]string // literal -> const name
	strList []string
	typeTag map[string]int // dynamic type tags for interfaces
	tagList []string
	tagType []types.Type
}

func newSorts() *Sorts {
	return &Sorts{byKey: map[string]*structInfo{}, byName: map[string]*structInfo{}, names: map[string]int{}, strLits: map[string]string{}, typeTag: map[string]int{}}
}

func typeKey(t types.Type) string {
	return types.TypeString(t, func(p *types.Package) string { return p.Path() })
}

func isTimeTime(t types.Type) bool {
	n, ok := types.Unalias(t).(*types.Named)
	if !ok {
		return false
	}
	o := n.Obj()
	return o.Pkg() != nil && o.Pkg().Path() == "time" && o.Name() == "Time"
}

func mangle(s string) string {
	var b strings.Builder
	for _, r := range s {
		switch {
		case r >= 'a' && r <= 'z', r >= 'A' && r <= 'Z', r >= '0' && r <= '9', r == '_':
			b.WriteRune(r)
		default:
			b.WriteByte('_')
		}
	}
	return b.String()
}

// sortOf maps a Go type to an SMT sort name.
func (ss *Sorts) sortOf(t types.Type) string {
	t = types.Unalias(t)
	if isTimeTime(t) {
		return SInt
	}
	switch u := t.Underlying().(type) {
	case *types.Basic:
		switch {
		case u.Info()&types.IsBoolean != 0:
			return SBool
		case u.Info()&types.IsInteger != 0:
			return SInt
		case u.Info()&types.IsFloat != 0:
			return SReal
		case u.Info()&types.IsString != 0:
			return SStr
		case u.Kind() == types.UnsafePointer:
			return SInt
		case u.Kind() == types.UntypedNil:
			return SInt
		case u.Info()&types.IsComplex != 0:
			return SInt
		}
		return SInt
	case *types.Pointer, *types.Map, *types.Chan, *types.Signature:
		return SInt
	case *types.Slice:
		return SSlice
	case *types.Interface:
		return SIface
	case *types.Array:
		return "(Array Int " + ss.sortOf(u.Elem()) + ")"
	case *types.Struct:
		return ss.structOf(t, u).name
	case *types.Tuple:
		return "Tuple"
	case *types.TypeParam:
		return SIface
	}
	return SInt
}

func (ss *Sorts) structOf(t types.Type, st *types.Struct) *structInfo {
	key := typeKey(t)
	if _, named := types.Unalias(t).(*types.Named); !named {
		key = typeKey(st)
	}
	if si, ok := ss.byKey[key]; ok {
		return si
	}
	name := "S_anon_" + shortHash(key)
	if n, ok := types.Unalias(t).(*types.Named); ok {
		name = "S_"
		if n.Obj().Pkg() != nil {
			name += mangle(n.Obj().Pkg().Name()) + "_"
		}
		name += mangle(n.Obj().Name())
		if n.Obj().Pkg() != nil && !strings.HasPrefix(n.Obj().Pkg().Path(), "github.com/cloudflare/pint") && strings.Contains(n.Obj().Pkg().Path(), "/") {
			name += "_" + shortHash(n.Obj().Pkg().Path())
		}
		if n.TypeArgs() != nil && n.TypeArgs().Len() > 0 {
			name += "_g" + shortHash(key)
		}
	}
	if other, clash := ss.byName[name]; clash && other != nil {
		name += "_" + shortHash(key)
	}
	si := &structInfo{name: name, st: st}
	ss.byKey[key] = si
	ss.byName[name] = si
	for i := 0; i < st.NumFields(); i++ {
		f := st.Field(i)
		fs := ss.sortOf(f.Type())
		fn := f.Name()
		if fn == "_" {
			fn = fmt.Sprintf("blank%d", i)
		}
		si.fields = append(si.fields, fieldInfo{name: f.Name(), acc: name + "." + mangle(fn), sort: fs, typ: f.Type()})
	}
	ss.order = append(ss.order, si)
	return si
}

func (ss *Sorts) structInfoOf(t types.Type) *structInfo {
	st, ok := types.Unalias(t).Underlying().(*types.Struct)
	if !ok {
		return nil
	}
	return ss.structOf(t, st)
}

// zero returns the zero value term of a Go type.
func (ss *Sorts) zero(t types.Type) Term {
	s := ss.sortOf(t)
	return Term{S: ss.zeroOfSort(s, t), Sort: s, T: t}
}

func (ss *Sorts) zeroOfSort(s string, t types.Type) string {
	switch s {
	case SInt:
		return "0"
	case SBool:
		return "false"
	case SReal:
		return "0.0"
	case SStr:
		return ss.strLit("")
	case SSlice:
		return "(mk_Slice 0 0 0 0)"
	case SIface:
		return "(mk_Iface 0 0)"
	case "Tuple":
		return "0"
	}
	if strings.HasPrefix(s, "(Array Int ") {
		var et types.Type
		if t != nil {
			if a, ok := types.Unalias(t).Underlying().(*types.Array); ok {
				et = a.Elem()
			}
		}
		es := s[len("(Array Int ") : len(s)-1]
		return "((as const " + s + ") " + ss.zeroOfSort(es, et) + ")"
	}
	if si, ok := ss.byName[s]; ok {
		if len(si.fields) == 0 {
			return "mk_" + si.name
		}
		args := make([]string, len(si.fields))
		for i, f := range si.fields {
			args[i] = ss.zeroOfSort(f.sort, f.typ)
		}
		return app("mk_"+si.name, args...)
	}
	return "0"
}

func (ss *Sorts) strLit(v string) string {
	if c, ok := ss.strLits[v]; ok {
		return c
	}
	c := "strlit_" + shortHash("s:"+v)
	if v == "" {
		c = "strlit_empty"
	}
	ss.strLits[v] = c
	ss.strList = append(ss.strList, v)
	return c
}

func shortHash(s string) string {
	h := fnv.New64a()
	h.Write([]byte(s))
	return fmt.Sprintf("%010x", h.Sum64()&0xffffffffff)
}

func (ss *Sorts) tagOf(t types.Type) int {
	k := typeKey(t)
	if n, ok := ss.typeTag[k]; ok {
		return n
	}
	h := fnv.New32a()
	h.Write([]byte(k))
	n := int(h.Sum32()&0x3fffffff) + 1
	ss.typeTag[k] = n
	ss.tagList = append(ss.tagList, k)
	ss.tagType = append(ss.tagType, t)
	return n
}

// datatypeDecls emits declarations for every struct sort mentioned in text (transitively), in dependency order.
func (ss *Sorts) datatypeDecls(used func(name string) bool) string {
	need := map[string]bool{}
	var visit func(si *structInfo)
	var out []*structInfo
	visit = func(si *structInfo) {
		if need[si.name] {
			return
		}
		need[si.name] = true
		for _, f := range si.fields {
			for _, dep := range sortNames(f.sort) {
				if d, ok := ss.byName[dep]; ok {
					visit(d)
				}
			}
		}
		out = append(out, si)
	}
	// iterate over a snapshot; structOf may not be called during emission
	ordered := append([]*structInfo{}, ss.order...)
	sort.Slice(ordered, func(i, j int) bool { return ordered[i].name < ordered[j].name })
	for _, si := range ordered {
		if used(si.name) {
			visit(si)
		}
	}
	var b strings.Builder
	for _, si := range out {
		fmt.Fprintf(&b, "(declare-datatypes ((%s 0)) (((mk_%s", si.name, si.name)
		for _, f := range si.fields {
			fmt.Fprintf(&b, " (%s %s)", f.acc, f.sort)
		}
		b.WriteString("))))\n")
	}
	return b.String()
}

// sortNames extracts identifier-like sort names from a sort expression.
func sortNames(s string) []string {
	f := strings.FieldsFunc(s, func(r rune) bool { return r == '(' || r == ')' || r == ' ' })
	return f
}

func sortedKeys[V any](m map[string]V) []string {
	ks := make([]string, 0, len(m))
	for k := range m {
		ks = append(ks, k)
	}
	sort.Strings(ks)
	return ks
}

func isNilIface(s string) bool { return s == "niliface" || s == "(mk_Iface 0 0)" }
func isNilSlice(s string) bool { return s == "nilslice" || s == "(mk_Slice 0 0 0 0)" }
