package main

// Replay of solver counterexamples against the real code (in-package Go test injected with `go test -overlay`).

type replayResult struct {
	Confirmed bool   `json:"confirmed"`
	Attempted bool   `json:"attempted"`
	Reason    string `json:"reason,omitempty"`
	TestFile  string `json:"test_file,omitempty"`
	Output    string `json:"output,omitempty"`
	Inputs    map[string]string `json:"inputs,omitempty"`
}

func (p *Program) replay(ob *Obligation, verif string) *replayResult {
	return &replayResult{Attempted: false, Reason: "replay generation not available for this function's parameter types"}
}
