package main

import (
	"context"
	"encoding/json"
	"fmt"
	"go/types"
	"os"
	"os/exec"
	"path/filepath"
	"sort"
	"strconv"
	"strings"
	"time"

	"golang.org/x/tools/go/ssa"
)

// Replay of solver counterexamples against the real code: the model's parameter values are turned into Go
// literals, an in-package test calling the real function is injected with `go test -overlay` (nothing is written
// into /repo), and the outcome is compared with what the model predicts (the returned values for a failed
// postcondition, a panic or hang for a failed safety / callee-precondition obligation).

type replayResult struct {
	Confirmed bool              `json:"confirmed"`
	Attempted bool              `json:"attempted"`
	Reason    string            `json:"reason,omitempty"`
	TestFile  string            `json:"test_file,omitempty"`
	Output    string            `json:"output,omitempty"`
	Inputs    map[string]string `json:"inputs,omitempty"`
	Predicted map[string]string `json:"predicted_results,omitempty"`
}

type sexp struct {
	atom string
	list []*sexp
}

func parseSexp(s string) *sexp {
	toks := strings.Fields(strings.ReplaceAll(strings.ReplaceAll(s, "(", " ( "), ")", " ) "))
	pos := 0
	var rec func() *sexp
	rec = func() *sexp {
		if pos >= len(toks) {
			return nil
		}
		t := toks[pos]
		pos++
		if t == "(" {
			n := &sexp{}
			for pos < len(toks) && toks[pos] != ")" {
				n.list = append(n.list, rec())
			}
			pos++
			return n
		}
		return &sexp{atom: t}
	}
	return rec()
}

func sexpInt(e *sexp) (int64, bool) {
	if e == nil {
		return 0, false
	}
	if e.atom != "" {
		v, err := strconv.ParseInt(e.atom, 10, 64)
		return v, err == nil
	}
	if len(e.list) == 2 && e.list[0].atom == "-" {
		v, ok := sexpInt(e.list[1])
		return -v, ok
	}
	return 0, false
}

type replayCtx struct {
	p       *Program
	strVals map[string]string // Str!val!k -> Go string
	pkg     *types.Package
	imports map[string]bool
}

// goLit renders the model value e of Go type t as a Go expression; ok=false if the type is outside the supported set.
func (rc *replayCtx) goLit(e *sexp, t types.Type) (string, bool) {
	qual := func(p *types.Package) string {
		if p == rc.pkg {
			return ""
		}
		rc.imports[p.Path()] = true
		return p.Name()
	}
	ts := types.TypeString(t, qual)
	if isTimeTime(t) {
		v, ok := sexpInt(e)
		rc.imports["time"] = true
		return fmt.Sprintf("time.Unix(0, %d).UTC()", v), ok
	}
	switch u := types.Unalias(t).Underlying().(type) {
	case *types.Basic:
		switch {
		case u.Info()&types.IsBoolean != 0:
			return fmt.Sprintf("%s(%s)", ts, e.atom), e.atom == "true" || e.atom == "false"
		case u.Info()&types.IsInteger != 0:
			v, ok := sexpInt(e)
			return fmt.Sprintf("%s(%d)", ts, v), ok
		case u.Info()&types.IsString != 0:
			if s, ok := rc.strVals[e.atom]; ok {
				return fmt.Sprintf("%s(%q)", ts, s), true
			}
			return fmt.Sprintf("%s(%q)", ts, "s_"+strings.ReplaceAll(e.atom, "!", "_")), e.atom != ""
		}
	case *types.Struct:
		si := rc.p.ss.structInfoOf(t)
		if e == nil || (len(si.fields) > 0 && len(e.list) != len(si.fields)+1) {
			return "", false
		}
		var parts []string
		for i, f := range si.fields {
			if f.name == "_" {
				continue
			}
			v, ok := rc.goLit(e.list[i+1], f.typ)
			if !ok {
				// unsupported field types (slices, pointers, interfaces) keep their zero value
				continue
			}
			if !types.NewVar(0, nil, f.name, f.typ).Exported() && rc.pkg != nil {
				if n, isNamed := types.Unalias(t).(*types.Named); isNamed && n.Obj().Pkg() != rc.pkg {
					continue
				}
			}
			parts = append(parts, f.name+": "+v)
		}
		return ts + "{" + strings.Join(parts, ", ") + "}", true
	}
	return "", false
}

func (p *Program) replay(ob *Obligation, verif string) *replayResult {
	res := &replayResult{}
	if ob.Model == nil || len(ob.Model) == 0 {
		res.Reason = "the solver returned no model"
		return res
	}
	fn := p.funcByKey[ob.Fn]
	if fn == nil || fn.Parent() != nil {
		res.Reason = "not a named top-level function"
		return res
	}
	if ob.Kind != "ensures" && ob.Kind != "safe" && ob.Kind != "requires" && ob.Kind != "assert" {
		res.Reason = "obligation kind " + ob.Kind + " concerns an internal state; no end-to-end replay"
		return res
	}
	pkg := fnPkg(fn)
	rc := &replayCtx{p: p, strVals: map[string]string{}, pkg: pkg, imports: map[string]bool{"testing": true, "fmt": true, "time": true}}
	for lit, c := range p.ss.strLits {
		if v, ok := ob.Model[c]; ok {
			rc.strVals[v] = lit
		}
	}
	var args []string
	res.Inputs = map[string]string{}
	for _, prm := range fn.Params {
		var val string
		for k, v := range ob.Model {
			if strings.HasPrefix(k, "v_p_"+mangle(prm.Name())+"_k") {
				val = v
			}
		}
		if val == "" {
			res.Reason = "no model value for parameter " + prm.Name()
			return res
		}
		lit, ok := rc.goLit(parseSexp(val), prm.Type())
		if !ok {
			res.Reason = fmt.Sprintf("parameter %s has type %s, outside the replayable set (scalars, strings, times and structs of those)", prm.Name(), typeKeyShort(prm.Type()))
			return res
		}
		args = append(args, lit)
		res.Inputs[prm.Name()] = lit
	}
	// predicted results (only for failed postconditions)
	names := resultNames(&FuncContract{}, fn.Signature)
	if fc := p.contractFor(fn); fc != nil {
		names = resultNames(fc, fn.Signature)
	}
	var checks []string
	res.Predicted = map[string]string{}
	if ob.Kind == "ensures" {
		for i, n := range names {
			var val string
			for k, v := range ob.Model {
				if strings.HasPrefix(k, "v_res_"+mangle(n)+"_k") {
					val = v
				}
			}
			rt := fn.Signature.Results().At(i).Type()
			if val == "" {
				continue
			}
			if types.IsInterface(rt) {
				// interface results (error): compare nil-ness
				e := parseSexp(val)
				if len(e.list) == 3 {
					isNil := e.list[1].atom == "0"
					res.Predicted[n] = fmt.Sprintf("nil=%v", isNil)
					checks = append(checks, fmt.Sprintf("if (r%d == nil) != %v { same = false }", i, isNil))
				}
				continue
			}
			lit, ok := rc.goLit(parseSexp(val), rt)
			if !ok {
				continue
			}
			res.Predicted[n] = lit
			checks = append(checks, fmt.Sprintf("if r%d != (%s) { same = false }", i, lit))
		}
		if len(checks) == 0 {
			res.Reason = "no comparable result values in the model"
			return res
		}
	}
	// call expression
	call := fn.Name() + "(" + strings.Join(args, ", ") + ")"
	if fn.Signature.Recv() != nil && len(args) > 0 {
		call = "(" + args[0] + ")." + fn.Name() + "(" + strings.Join(args[1:], ", ") + ")"
	}
	var lhs []string
	for i := range names {
		lhs = append(lhs, fmt.Sprintf("r%d", i))
	}
	assign := ""
	if len(lhs) > 0 {
		assign = strings.Join(lhs, ", ") + " := "
	}
	var imps []string
	bodyText := call + " " + strings.Join(checks, " ")
	for path := range rc.imports {
		base := path[strings.LastIndex(path, "/")+1:]
		if path != "testing" && path != "fmt" && path != "time" && !strings.Contains(bodyText, base+".") {
			continue
		}
		imps = append(imps, fmt.Sprintf("\t%q", path))
	}
	sort.Strings(imps)
	var use []string
	for i := range names {
		use = append(use, fmt.Sprintf("r%d", i))
	}
	src := fmt.Sprintf(`package %s

import (
%s
)

var _ = time.Second
var _ = fmt.Sprint

// Generated by govc: replay of the counterexample for %s
func TestZZGovcReplay(t *testing.T) {
	done := make(chan string, 1)
	go func() {
		defer func() {
			if r := recover(); r != nil {
				done <- fmt.Sprintf("GOVC-REPLAY: PANIC %%v", r)
			}
		}()
		%s%s
		same := true
		%s
		done <- fmt.Sprintf("GOVC-REPLAY: RETURNED same-as-model=%%v results=%%v", same, []any{%s})
	}()
	select {
	case m := <-done:
		fmt.Println(m)
	case <-time.After(5 * time.Second):
		fmt.Println("GOVC-REPLAY: HANG (no return within 5s)")
	}
}
`, pkg.Name(), strings.Join(imps, "\n"), ob.Name, assign, call, strings.Join(checks, "\n\t\t"), strings.Join(use, ", "))
	dir := filepath.Join(verif, "replays", "src")
	os.MkdirAll(dir, 0o755)
	testPath := filepath.Join(dir, mangle(ob.Name)+"_test.go")
	os.WriteFile(testPath, []byte(src), 0o644)
	res.TestFile = testPath
	// overlay: place the test in the function's package directory
	pkgDir := filepath.Dir(p.fset.Position(fn.Pos()).Filename)
	ov := map[string]map[string]string{"Replace": {filepath.Join(pkgDir, "zz_govc_replay_test.go"): testPath}}
	ovb, _ := json.Marshal(ov)
	ovPath := filepath.Join(dir, mangle(ob.Name)+".overlay.json")
	os.WriteFile(ovPath, ovb, 0o644)
	ctx, cancel := context.WithTimeout(context.Background(), 120*time.Second)
	defer cancel()
	cmd := exec.CommandContext(ctx, "go", "test", "-overlay", ovPath, "-vet=off", "-count=1", "-v", "-timeout", "60s", "-run", "TestZZGovcReplay", ".")
	cmd.Dir = pkgDir
	cmd.Env = append(os.Environ(), "GOFLAGS=-mod=mod", "GOPROXY=off")
	out, _ := cmd.CombinedOutput()
	res.Attempted = true
	res.Output = trunc2(string(out), 3000)
	text := string(out)
	switch {
	case strings.Contains(text, "GOVC-REPLAY: PANIC"):
		res.Confirmed = ob.Kind == "safe" || ob.Kind == "requires" || ob.Kind == "assert"
		if !res.Confirmed {
			res.Reason = "the real function panics on the model's input (a different failure than predicted)"
			res.Confirmed = true
		}
	case strings.Contains(text, "GOVC-REPLAY: HANG"):
		res.Confirmed = true
		res.Reason = "the real function does not return on the model's input"
	case strings.Contains(text, "same-as-model=true") && ob.Kind == "ensures":
		res.Confirmed = true
		res.Reason = "the real function returns exactly the values of the counterexample, for which the postcondition is false"
	case strings.Contains(text, "GOVC-REPLAY: RETURNED"):
		res.Reason = "the real function returns normally with other values: the counterexample lies in an abstracted region"
	default:
		res.Reason = "the replay test did not build or run"
	}
	return res
}

var _ = ssa.NaiveForm
