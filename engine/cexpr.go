package main

import (
	"fmt"
	"strings"
	"unicode"
)

// Contract expression language: Go expression syntax plus
//   A ==> B, A <==> B, c ? a : b, forall x T, y U :: P, exists x T :: P, old(e), result,
//   has(m, k) (map membership), composite literals T{f: e}, and method/spec calls.

type Expr struct {
	Op      string // ident, int, str, char, float, sel, index, slice, call, unary, binary, forall, exists, cond, complit, paren
	Name    string // ident name, selector field, operator
	Args    []*Expr
	Binders []Binder
	Type    *TypeExpr // complit type, conversion
	Keys    []string  // complit field names
	Pos     int
}

type Binder struct {
	Name string
	Type *TypeExpr
}

type TypeExpr struct {
	Kind string // name, ptr, slice, map
	Pkg  string
	Name string
	Elem *TypeExpr
	Key  *TypeExpr
}

func (t *TypeExpr) String() string {
	switch t.Kind {
	case "ptr":
		return "*" + t.Elem.String()
	case "slice":
		return "[]" + t.Elem.String()
	case "map":
		return "map[" + t.Key.String() + "]" + t.Elem.String()
	}
	if t.Pkg != "" {
		return t.Pkg + "." + t.Name
	}
	return t.Name
}

type ctok struct {
	kind string // id, int, float, str, char, op, eof
	text string
	pos  int
}

func lexExpr(src string) ([]ctok, error) {
	var toks []ctok
	i := 0
	ops := []string{"<==>", "==>", "::", "&&", "||", "==", "!=", "<=", ">=", "<<", ">>", "\\in", "+", "-", "*", "/", "%", "!", "<", ">", "(", ")", "[", "]", "{", "}", ",", ".", ":", "?", "&", "|", "^"}
	for i < len(src) {
		c := src[i]
		switch {
		case c == ' ' || c == '\t' || c == '\n':
			i++
		case unicode.IsLetter(rune(c)) || c == '_' || c == '$':
			j := i
			for j < len(src) && (unicode.IsLetter(rune(src[j])) || unicode.IsDigit(rune(src[j])) || src[j] == '_' || src[j] == '$') {
				j++
			}
			toks = append(toks, ctok{"id", src[i:j], i})
			i = j
		case unicode.IsDigit(rune(c)):
			j := i
			isFloat := false
			for j < len(src) && (unicode.IsDigit(rune(src[j])) || src[j] == '_' || (src[j] == '.' && j+1 < len(src) && unicode.IsDigit(rune(src[j+1])))) {
				if src[j] == '.' {
					isFloat = true
				}
				j++
			}
			k := "int"
			if isFloat {
				k = "float"
			}
			toks = append(toks, ctok{k, strings.ReplaceAll(src[i:j], "_", ""), i})
			i = j
		case c == '"':
			j := i + 1
			var b strings.Builder
			for j < len(src) && src[j] != '"' {
				if src[j] == '\\' && j+1 < len(src) {
					j++
					switch src[j] {
					case 'n':
						b.WriteByte('\n')
					case 't':
						b.WriteByte('\t')
					case '\\':
						b.WriteByte('\\')
					case '"':
						b.WriteByte('"')
					default:
						b.WriteByte('\\')
						b.WriteByte(src[j])
					}
					j++
					continue
				}
				b.WriteByte(src[j])
				j++
			}
			if j >= len(src) {
				return nil, fmt.Errorf("unterminated string at %d", i)
			}
			toks = append(toks, ctok{"str", b.String(), i})
			i = j + 1
		case c == '`':
			j := strings.IndexByte(src[i+1:], '`')
			if j < 0 {
				return nil, fmt.Errorf("unterminated raw string at %d", i)
			}
			toks = append(toks, ctok{"str", src[i+1 : i+1+j], i})
			i += j + 2
		case c == '\'':
			j := i + 1
			var val int
			if j < len(src) && src[j] == '\\' && j+1 < len(src) {
				switch src[j+1] {
				case 'n':
					val = '\n'
				case 't':
					val = '\t'
				case 'r':
					val = '\r'
				case '\\':
					val = '\\'
				case '\'':
					val = '\''
				default:
					return nil, fmt.Errorf("unsupported escape at %d", i)
				}
				j += 2
			} else if j < len(src) {
				val = int(src[j])
				j++
			}
			if j >= len(src) || src[j] != '\'' {
				return nil, fmt.Errorf("bad char literal at %d", i)
			}
			toks = append(toks, ctok{"char", fmt.Sprint(val), i})
			i = j + 1
		default:
			matched := false
			for _, op := range ops {
				if strings.HasPrefix(src[i:], op) {
					toks = append(toks, ctok{"op", op, i})
					i += len(op)
					matched = true
					break
				}
			}
			if !matched {
				return nil, fmt.Errorf("unexpected character %q at %d", c, i)
			}
		}
	}
	toks = append(toks, ctok{"eof", "", len(src)})
	return toks, nil
}

type exprParser struct {
	toks []ctok
	p    int
	src  string
}

func parseExpr(src string) (*Expr, error) {
	toks, err := lexExpr(src)
	if err != nil {
		return nil, err
	}
	ps := &exprParser{toks: toks, src: src}
	e, err := ps.parseTop()
	if err != nil {
		return nil, err
	}
	if ps.peek().kind != "eof" {
		return nil, fmt.Errorf("unexpected %q at %d in %q", ps.peek().text, ps.peek().pos, src)
	}
	return e, nil
}

func (ps *exprParser) peek() ctok { return ps.toks[ps.p] }
func (ps *exprParser) next() ctok  { t := ps.toks[ps.p]; ps.p++; return t }
func (ps *exprParser) isOp(s string) bool {
	t := ps.peek()
	return t.kind == "op" && t.text == s
}
func (ps *exprParser) expectOp(s string) error {
	if !ps.isOp(s) {
		return fmt.Errorf("expected %q, found %q at %d in %q", s, ps.peek().text, ps.peek().pos, ps.src)
	}
	ps.next()
	return nil
}

func (ps *exprParser) parseTop() (*Expr, error) {
	t := ps.peek()
	if t.kind == "id" && (t.text == "forall" || t.text == "exists") {
		ps.next()
		var bs []Binder
		var pendingNames []string
		for {
			n := ps.next()
			if n.kind != "id" {
				return nil, fmt.Errorf("expected binder name at %d in %q", n.pos, ps.src)
			}
			pendingNames = append(pendingNames, n.text)
			if ps.isOp(",") {
				ps.next()
				continue
			}
			ty, err := ps.parseType()
			if err != nil {
				return nil, err
			}
			for _, pn := range pendingNames {
				bs = append(bs, Binder{pn, ty})
			}
			pendingNames = nil
			if ps.isOp(",") {
				ps.next()
				continue
			}
			break
		}
		if err := ps.expectOp("::"); err != nil {
			return nil, err
		}
		body, err := ps.parseTop()
		if err != nil {
			return nil, err
		}
		return &Expr{Op: t.text, Binders: bs, Args: []*Expr{body}, Pos: t.pos}, nil
	}
	return ps.parseIff()
}

func (ps *exprParser) parseType() (*TypeExpr, error) {
	t := ps.peek()
	switch {
	case t.kind == "op" && t.text == "*":
		ps.next()
		e, err := ps.parseType()
		if err != nil {
			return nil, err
		}
		return &TypeExpr{Kind: "ptr", Elem: e}, nil
	case t.kind == "op" && t.text == "[":
		ps.next()
		if err := ps.expectOp("]"); err != nil {
			return nil, err
		}
		e, err := ps.parseType()
		if err != nil {
			return nil, err
		}
		return &TypeExpr{Kind: "slice", Elem: e}, nil
	case t.kind == "id" && t.text == "set" && ps.toks[ps.p+1].kind == "op" && ps.toks[ps.p+1].text == "[":
		ps.next()
		ps.next()
		e, err := ps.parseType()
		if err != nil {
			return nil, err
		}
		if err := ps.expectOp("]"); err != nil {
			return nil, err
		}
		return &TypeExpr{Kind: "set", Elem: e}, nil
	case t.kind == "id" && t.text == "map":
		ps.next()
		if err := ps.expectOp("["); err != nil {
			return nil, err
		}
		k, err := ps.parseType()
		if err != nil {
			return nil, err
		}
		if err := ps.expectOp("]"); err != nil {
			return nil, err
		}
		e, err := ps.parseType()
		if err != nil {
			return nil, err
		}
		return &TypeExpr{Kind: "map", Key: k, Elem: e}, nil
	case t.kind == "id":
		ps.next()
		if ps.isOp(".") && ps.toks[ps.p+1].kind == "id" {
			ps.next()
			n := ps.next()
			return &TypeExpr{Kind: "name", Pkg: t.text, Name: n.text}, nil
		}
		return &TypeExpr{Kind: "name", Name: t.text}, nil
	}
	return nil, fmt.Errorf("expected type at %d in %q", t.pos, ps.src)
}

func (ps *exprParser) parseIff() (*Expr, error) {
	l, err := ps.parseImp()
	if err != nil {
		return nil, err
	}
	for ps.isOp("<==>") {
		t := ps.next()
		r, err := ps.parseImp()
		if err != nil {
			return nil, err
		}
		l = &Expr{Op: "binary", Name: "<==>", Args: []*Expr{l, r}, Pos: t.pos}
	}
	return l, nil
}

func (ps *exprParser) parseImp() (*Expr, error) {
	l, err := ps.parseCond()
	if err != nil {
		return nil, err
	}
	if ps.isOp("==>") {
		t := ps.next()
		var r *Expr
		if pk := ps.peek(); pk.kind == "id" && (pk.text == "forall" || pk.text == "exists") {
			r, err = ps.parseTop()
		} else {
			r, err = ps.parseImp()
		}
		if err != nil {
			return nil, err
		}
		return &Expr{Op: "binary", Name: "==>", Args: []*Expr{l, r}, Pos: t.pos}, nil
	}
	return l, nil
}

func (ps *exprParser) parseCond() (*Expr, error) {
	c, err := ps.parseBin(0)
	if err != nil {
		return nil, err
	}
	if ps.isOp("?") {
		t := ps.next()
		a, err := ps.parseCond()
		if err != nil {
			return nil, err
		}
		if err := ps.expectOp(":"); err != nil {
			return nil, err
		}
		b, err := ps.parseCond()
		if err != nil {
			return nil, err
		}
		return &Expr{Op: "cond", Args: []*Expr{c, a, b}, Pos: t.pos}, nil
	}
	return c, nil
}

var binPrec = map[string]int{"||": 1, "&&": 2, "==": 3, "!=": 3, "<": 3, "<=": 3, ">": 3, ">=": 3, "\\in": 3, "+": 4, "-": 4, "|": 4, "^": 4, "*": 5, "/": 5, "%": 5, "&": 5, "<<": 5, ">>": 5}

func (ps *exprParser) parseBin(minPrec int) (*Expr, error) {
	l, err := ps.parseUnary()
	if err != nil {
		return nil, err
	}
	for {
		t := ps.peek()
		if t.kind != "op" {
			return l, nil
		}
		prec, ok := binPrec[t.text]
		if !ok || prec <= minPrec {
			return l, nil
		}
		ps.next()
		var r *Expr
		if pk := ps.peek(); pk.kind == "id" && (pk.text == "forall" || pk.text == "exists") && (t.text == "&&" || t.text == "||") {
			r, err = ps.parseTop()
		} else {
			r, err = ps.parseBin(prec)
		}
		if err != nil {
			return nil, err
		}
		l = &Expr{Op: "binary", Name: t.text, Args: []*Expr{l, r}, Pos: t.pos}
	}
}

func (ps *exprParser) parseUnary() (*Expr, error) {
	t := ps.peek()
	if t.kind == "op" && (t.text == "!" || t.text == "-" || t.text == "*") {
		ps.next()
		e, err := ps.parseUnary()
		if err != nil {
			return nil, err
		}
		return &Expr{Op: "unary", Name: t.text, Args: []*Expr{e}, Pos: t.pos}, nil
	}
	return ps.parsePostfix()
}

func (ps *exprParser) parsePostfix() (*Expr, error) {
	e, err := ps.parsePrimary()
	if err != nil {
		return nil, err
	}
	for {
		t := ps.peek()
		if t.kind != "op" {
			return e, nil
		}
		switch t.text {
		case ".":
			ps.next()
			n := ps.next()
			if n.kind != "id" {
				return nil, fmt.Errorf("expected field name at %d in %q", n.pos, ps.src)
			}
			e = &Expr{Op: "sel", Name: n.text, Args: []*Expr{e}, Pos: t.pos}
		case "[":
			ps.next()
			var lo, hi *Expr
			if !ps.isOp(":") {
				lo, err = ps.parseTop()
				if err != nil {
					return nil, err
				}
			}
			if ps.isOp(":") {
				ps.next()
				if !ps.isOp("]") {
					hi, err = ps.parseTop()
					if err != nil {
						return nil, err
					}
				}
				if err := ps.expectOp("]"); err != nil {
					return nil, err
				}
				e = &Expr{Op: "slice", Args: []*Expr{e, lo, hi}, Pos: t.pos}
				continue
			}
			if err := ps.expectOp("]"); err != nil {
				return nil, err
			}
			e = &Expr{Op: "index", Args: []*Expr{e, lo}, Pos: t.pos}
		case "(":
			ps.next()
			var args []*Expr
			for !ps.isOp(")") {
				a, err := ps.parseTop()
				if err != nil {
					return nil, err
				}
				args = append(args, a)
				if ps.isOp(",") {
					ps.next()
				} else {
					break
				}
			}
			if err := ps.expectOp(")"); err != nil {
				return nil, err
			}
			e = &Expr{Op: "call", Args: append([]*Expr{e}, args...), Pos: t.pos}
		case "{":
			// composite literal: only after a type name (ident or pkg.ident)
			ty := exprAsType(e)
			if ty == nil {
				return e, nil
			}
			ps.next()
			lit := &Expr{Op: "complit", Type: ty, Pos: t.pos}
			for !ps.isOp("}") {
				k := ps.next()
				if k.kind != "id" {
					return nil, fmt.Errorf("expected field name in composite literal at %d in %q", k.pos, ps.src)
				}
				if err := ps.expectOp(":"); err != nil {
					return nil, err
				}
				v, err := ps.parseTop()
				if err != nil {
					return nil, err
				}
				lit.Keys = append(lit.Keys, k.text)
				lit.Args = append(lit.Args, v)
				if ps.isOp(",") {
					ps.next()
				} else {
					break
				}
			}
			if err := ps.expectOp("}"); err != nil {
				return nil, err
			}
			e = lit
		default:
			return e, nil
		}
	}
}

func exprAsType(e *Expr) *TypeExpr {
	switch e.Op {
	case "ident":
		if len(e.Name) > 0 && unicode.IsUpper(rune(e.Name[0])) || isLowerTypeName(e.Name) {
			return &TypeExpr{Kind: "name", Name: e.Name}
		}
	case "sel":
		if e.Args[0].Op == "ident" {
			return &TypeExpr{Kind: "name", Pkg: e.Args[0].Name, Name: e.Name}
		}
	}
	return nil
}

var lowerTypeNames = map[string]bool{}

func isLowerTypeName(n string) bool { return lowerTypeNames[n] }

func (ps *exprParser) parsePrimary() (*Expr, error) {
	t := ps.next()
	switch t.kind {
	case "id":
		return &Expr{Op: "ident", Name: t.text, Pos: t.pos}, nil
	case "int", "float", "str", "char":
		return &Expr{Op: t.kind, Name: t.text, Pos: t.pos}, nil
	case "op":
		if t.text == "(" {
			e, err := ps.parseTop()
			if err != nil {
				return nil, err
			}
			if err := ps.expectOp(")"); err != nil {
				return nil, err
			}
			return &Expr{Op: "paren", Args: []*Expr{e}, Pos: t.pos}, nil
		}
		if t.text == "[" {
			// slice type literal []T{...} is not supported in specs
			return nil, fmt.Errorf("unexpected '[' at %d in %q", t.pos, ps.src)
		}
	}
	return nil, fmt.Errorf("unexpected %q at %d in %q", t.text, t.pos, ps.src)
}
