package main

import (
	"fmt"
	"go/token"
	"go/types"
	"sort"
	"strings"

	"golang.org/x/tools/go/ssa"
)

type incoming struct {
	from    *Node
	cond    string
	st      *State
	assumes []string
	predIdx int // index of the predecessor block in the successor's Preds (for phi)
	pred    *ssa.BasicBlock
}

type retFn func(n *Node, st *State, results []Term, instr *ssa.Return)

// join merges incoming edges into a fresh node, introducing join constants for differing variables.
func (x *Exec) join(label string, ins []incoming) (*Node, *State) {
	n := x.vc.newNode(label)
	if len(ins) == 1 {
		x.vc.link(ins[0].from, n, ins[0].cond, ins[0].assumes)
		return n, ins[0].st.clone()
	}
	names := map[string]bool{}
	for _, in := range ins {
		for k := range in.st.vars {
			names[k] = true
		}
	}
	st := newState()
	extra := make([][]string, len(ins))
	keys := make([]string, 0, len(names))
	for k := range names {
		keys = append(keys, k)
	}
	sort.Strings(keys)
	for _, k := range keys {
		first := x.get(ins[0].st, k)
		same := true
		for _, in := range ins[1:] {
			if x.get(in.st, k).S != first.S {
				same = false
				break
			}
		}
		if same {
			st.vars[k] = first
			continue
		}
		j := x.vc.freshConst(shortVar(k)+"_j", x.varSort(k))
		st.vars[k] = Term{S: j, Sort: x.varSort(k)}
		if strings.HasPrefix(k, "HA.") {
			x.reseed(k, j)
			for _, in := range ins {
				x.linkHeaps(k, x.get(in.st, k).S, j)
			}
		}
		for i, in := range ins {
			extra[i] = append(extra[i], mkEq(j, x.get(in.st, k).S))
		}
	}
	for i, in := range ins {
		x.vc.link(in.from, n, in.cond, append(append([]string{}, in.assumes...), extra[i]...))
	}
	return n, st
}

// runFunction symbolically executes fn's body from node/state; ret is called at every return.
func (x *Exec) runFunction(fr *Frame, entry *Node, st *State, ret retFn) {
	fn := fr.fn
	if len(fn.Blocks) == 0 {
		return
	}
	li := fr.loops
	if li.irreducible {
		x.vc.note("%s: irreducible control flow; not supported", fn.Name())
	}
	pending := map[*ssa.BasicBlock][]incoming{}
	pending[fn.Blocks[0]] = []incoming{{from: entry, cond: "true", st: st, predIdx: -1}}
	for _, b := range li.rpo {
		ins := pending[b]
		if len(ins) == 0 {
			continue
		}
		var n *Node
		var cur *State
		_, isHeader := li.ordinal[b]
		// phi nodes: the value is a fresh constant defined on every incoming edge
		for _, in := range b.Instrs {
			phi, ok := in.(*ssa.Phi)
			if !ok {
				break
			}
			if fr.phiCell[phi] != nil {
				continue
			}
			t := x.fresh("phi_"+phi.Name(), phi.Type())
			fr.vals[phi] = t
			if isHeader {
				x.vc.note("%s: phi %s at a loop header is treated as unconstrained", fn.Name(), phi.Name())
				continue
			}
			for i := range ins {
				pi := ins[i].predIdx
				if pi >= 0 && pi < len(phi.Edges) {
					v := x.val(fr, ins[i].from, ins[i].st, phi.Edges[pi])
					ins[i].assumes = append(ins[i].assumes, mkEq(t.S, v.S))
				}
			}
		}
		if isHeader {
			pre, preSt := x.joinEntry(fmt.Sprintf("%s.b%d.pre", fn.Name(), b.Index), ins, entry)
			n, cur = x.loopHeader(fr, b, li.ordinal[b], pre, preSt)
		} else {
			n, cur = x.joinEntry(fmt.Sprintf("%s.b%d", fn.Name(), b.Index), ins, entry)
		}
		n, cur = x.execBlock(fr, b, n, cur, ret, pending)
		_ = n
		_ = cur
	}
}

// joinEntry is join, except that the function's entry edge comes straight from the entry node.
func (x *Exec) joinEntry(label string, ins []incoming, entry *Node) (*Node, *State) {
	if len(ins) == 1 && ins[0].from == entry && ins[0].predIdx == -1 {
		return entry, ins[0].st
	}
	return x.join(label, ins)
}

func predIndex(from, to *ssa.BasicBlock) int {
	for i, p := range to.Preds {
		if p == from {
			return i
		}
	}
	return -1
}

// loopHeader cuts the loop at its header: assert invariants on entry, havoc what the loop modifies, assume invariants.
func (x *Exec) loopHeader(fr *Frame, h *ssa.BasicBlock, ord int, pre *Node, st *State) (*Node, *State) {
	var spec *LoopSpec
	if fr.contract != nil && fr.depth == 0 {
		spec = fr.contract.Loops[ord]
	}
	if spec != nil {
		for i, inv := range spec.Invariants {
			env := x.bodyEnv(fr, pre, st, h)
			f, err := x.trBool(inv.Expr, env)
			if err != nil {
				x.contractError(fr, inv, err)
				continue
			}
			ob := &Obligation{Name: fmt.Sprintf("%s#loop%d-inv-init#%d", fr.contract.Key(), ord, i+1), Kind: "invariant-init", Fn: fr.contract.Key(), Props: clauseProps(fr.contract, inv), Clause: inv.Src, Pos: x.prog.pos(firstPos(h))}
			x.vc.assert(pre, f, ob)
		}
	}
	hd := x.vc.newNode(fmt.Sprintf("%s.b%d.head", fr.fn.Name(), h.Index))
	x.vc.link(pre, hd, "true", nil)
	cur := st.clone()
	mods, freshMods := x.prog.loopMods(x, fr, h)
	allocPre := x.allocNow(st)
	x.havocVar(cur, allocVar)
	for _, m := range freshMods {
		x.havocFresh(hd, cur, m, allocPre)
	}
	for _, m := range mods {
		if m == allocVar {
			continue
		}
		if fields, partial := fr.loopFieldMods[h][m]; partial {
			if t, ok := x.vc.cellType[m]; ok {
				if si := x.ss.structInfoOf(t); si != nil && x.varSort(m) == si.name {
					before := x.get(cur, m).S
					args := make([]string, len(si.fields))
					for i, f := range si.fields {
						args[i] = app(f.acc, before)
					}
					for _, fi := range fields {
						if fi < len(si.fields) {
							args[fi] = x.vc.freshConst(shortVar(m)+"_"+mangle(si.fields[fi].name)+"_h", si.fields[fi].sort)
						}
					}
					c := x.vc.freshConst(shortVar(m)+"_h", si.name)
					hd.assume(mkEq(c, app("mk_"+si.name, args...)))
					x.set(cur, m, c)
					x.assumeAllocated(hd, cur, Term{S: c, Sort: si.name, T: t})
					continue
				}
			}
		}
		x.havocVar(cur, m)
		if t, ok := x.vc.cellType[m]; ok {
			x.assumeAllocated(hd, cur, Term{S: cur.vars[m].S, Sort: x.varSort(m), T: t})
		}
	}
	if a, ok := cur.vars[allocVar]; ok {
		// the allocation counter only grows
		n := x.get(cur, allocVar)
		_ = a
		hd.assume(app(">=", n.S, x.get(st, allocVar).S))
	}
	// range-over-slice loops: the hidden index starts at -1 and only grows
	for _, in := range h.Instrs {
		if s, ok := in.(*ssa.Store); ok {
			if a, ok := s.Addr.(*ssa.Alloc); ok && a.Comment == "rangeindex" && fr.isCell[a] {
				hd.assume(app(">=", x.get(cur, x.cellVar(fr, a)).S, "(- 1)"))
			}
		}
	}
	fr.loopHeadState[h] = cur.clone()
	if spec != nil {
		for _, inv := range spec.Assumed {
			env := x.bodyEnv(fr, hd, cur, h)
			f, err := x.trBool(inv.Expr, env)
			if err != nil {
				x.contractError(fr, inv, err)
				continue
			}
			hd.assume(f)
		}
		for _, inv := range spec.Invariants {
			env := x.bodyEnv(fr, hd, cur, h)
			f, err := x.trBool(inv.Expr, env)
			if err != nil {
				continue
			}
			hd.assume(f)
		}
		if spec.Decreases != nil {
			env := x.bodyEnv(fr, hd, cur, h)
			v, err := x.tr(spec.Decreases.Expr, env)
			if err != nil {
				x.contractError(fr, *spec.Decreases, err)
			} else {
				c := x.vc.freshConst("variant", SInt)
				hd.assume(mkEq(c, v.S))
				fr.loopVariant[h] = c
			}
		}
	}
	// cover: the loop head must be reachable with the invariant assumed (vacuity guard)
	if fr.depth == 0 && fr.contract != nil && spec != nil {
		ob := &Obligation{Name: fmt.Sprintf("%s#loop%d-cover", fr.contract.Key(), ord), Kind: "cover", Fn: fr.contract.Key(), Props: fr.contract.Props, Clause: "loop head reachable under its invariant", Expect: "sat", Pos: x.prog.pos(firstPos(h))}
		x.vc.assert(hd, "true", ob)
	}
	return hd, cur
}

func firstPos(b *ssa.BasicBlock) token.Pos {
	for _, in := range b.Instrs {
		if in.Pos().IsValid() {
			return in.Pos()
		}
	}
	return token.NoPos
}

// backEdge: assert the invariants are preserved and the variant decreased.
func (x *Exec) backEdge(fr *Frame, from *ssa.BasicBlock, h *ssa.BasicBlock, n *Node, cond string, st *State) {
	ord := fr.loops.ordinal[h]
	var spec *LoopSpec
	if fr.contract != nil && fr.depth == 0 {
		spec = fr.contract.Loops[ord]
	}
	if spec == nil {
		return
	}
	be := x.vc.newNode(fmt.Sprintf("%s.b%d.back%d", fr.fn.Name(), from.Index, h.Index))
	x.vc.link(n, be, cond, nil)
	for i, inv := range spec.Invariants {
		env := x.bodyEnv(fr, be, st, h)
		f, err := x.trBool(inv.Expr, env)
		if err != nil {
			x.contractError(fr, inv, err)
			continue
		}
		ob := &Obligation{Name: fmt.Sprintf("%s#loop%d-inv-pres#%d", fr.contract.Key(), ord, i+1), Kind: "invariant-pres", Fn: fr.contract.Key(), Props: clauseProps(fr.contract, inv), Clause: inv.Src, Pos: x.prog.pos(firstPos(from))}
		if fr.callCount[ob.Name] > 0 {
			ob.Name = fmt.Sprintf("%s@%d", ob.Name, fr.callCount[ob.Name]+1)
		}
		fr.callCount[fmt.Sprintf("%s#loop%d-inv-pres#%d", fr.contract.Key(), ord, i+1)]++
		x.vc.assert(be, f, ob)
	}
	if spec.Decreases != nil {
		if v0, ok := fr.loopVariant[h]; ok {
			env := x.bodyEnv(fr, be, st, h)
			v, err := x.tr(spec.Decreases.Expr, env)
			if err == nil {
				key := fmt.Sprintf("%s#loop%d-decreases", fr.contract.Key(), ord)
				fr.callCount[key]++
				ob := &Obligation{Name: fmt.Sprintf("%s#%d", key, fr.callCount[key]), Kind: "decreases", Fn: fr.contract.Key(), Props: clauseProps(fr.contract, *spec.Decreases), Clause: spec.Decreases.Src, Pos: x.prog.pos(firstPos(from))}
				x.vc.assert(be, mkAnd(app(">=", v0, "0"), app("<", v.S, v0)), ob)
			}
		}
	}
}

func clauseProps(fc *FuncContract, c Clause) []string {
	if len(c.Props) > 0 {
		return c.Props
	}
	return fc.Props
}

func (x *Exec) contractError(fr *Frame, c Clause, err error) {
	key := "?"
	var props []string
	if fr != nil && fr.contract != nil {
		key = fr.contract.Key()
		props = clauseProps(fr.contract, c)
	}
	x.prog.contractErrors = append(x.prog.contractErrors, contractErr{Fn: key, Clause: c.Src, Err: err.Error(), Props: props, Line: c.Line, File: c.File})
}

// execBlock executes the non-phi instructions of b.
func (x *Exec) execBlock(fr *Frame, b *ssa.BasicBlock, n *Node, st *State, ret retFn, pending map[*ssa.BasicBlock][]incoming) (*Node, *State) {
	for _, in := range b.Instrs {
		switch in := in.(type) {
		case *ssa.Phi:
			continue
		case *ssa.If:
			c := x.val(fr, n, st, in.Cond).S
			x.edge(fr, b, b.Succs[0], n, c, st, pending)
			x.edge(fr, b, b.Succs[1], n, mkNot(c), st.clone(), pending)
			return n, st
		case *ssa.Jump:
			x.edge(fr, b, b.Succs[0], n, "true", st, pending)
			return n, st
		case *ssa.Return:
			var rs []Term
			for _, r := range in.Results {
				rs = append(rs, x.val(fr, n, st, r))
			}
			fr.retCount++
			ret(n, st, rs, in)
			return n, st
		case *ssa.Panic:
			if fr.safe && fr.depth == 0 {
				x.safety(fr, n, "false", "panic", in.Pos())
			} else {
				n.assume("false")
			}
			return n, st
		default:
			n = x.execInstr(fr, n, st, in)
		}
	}
	return n, st
}

func (x *Exec) edge(fr *Frame, from, to *ssa.BasicBlock, n *Node, cond string, st *State, pending map[*ssa.BasicBlock][]incoming) {
	if fr.loops.isBack[[2]int{from.Index, to.Index}] {
		x.backEdge(fr, from, to, n, cond, st)
		return
	}
	pending[to] = append(pending[to], incoming{from: n, cond: cond, st: st, predIdx: predIndex(from, to), pred: from})
}

// ---------------------------------------------------------------------------

func (x *Exec) setVal(fr *Frame, n *Node, v ssa.Value, t Term) {
	t.T = v.Type()
	fr.vals[v] = x.nameTerm(n, v.Name(), t)
}

func (x *Exec) execInstr(fr *Frame, n *Node, st *State, in ssa.Instruction) *Node {
	switch in := in.(type) {
	case *ssa.DebugRef:
	case *ssa.Alloc:
		et := deref(in.Type())
		if fr.isCell[in] {
			name := x.cellVar(fr, in)
			x.set(st, name, x.ss.zero(et).S)
			return n
		}
		r := x.allocRef(n, st, "new_"+mangle(in.Comment))
		fr.vals[in] = Term{S: r, Sort: SInt, T: in.Type()}
		switch u := et.Underlying().(type) {
		case *types.Array:
			h := x.heapElem(u.Elem())
			x.setNamed(n, st, h, app("store", x.get(st, h).S, r, x.ss.zero(et).S))
		default:
			p := x.ptrPlaceT(nil, n, Term{S: r, Sort: SInt, T: in.Type()}, in.Pos())
			x.storePlace(n, st, p, x.ss.zero(et))
		}
	case *ssa.Store:
		if fa, ok := in.Addr.(*ssa.FieldAddr); ok && fr.depth == 0 && fr.contract != nil && len(fr.contract.Asserts) > 0 {
			if si := x.ss.structInfoOf(deref(fa.X.Type())); si != nil {
				// arg0 = the value being stored
				x.atAsserts(fr, n, st, "store", []string{si.fields[fa.Field].name}, in, x.val(fr, n, st, in.Val))
			}
		}
		v := x.val(fr, n, st, in.Val)
		p := x.placeOf(fr, n, st, in.Addr)
		if p == nil {
			p = x.ptrPlace(fr, n, st, in.Addr)
		}
		x.storePlace(n, st, p, v)
	case *ssa.UnOp:
		x.execUnOp(fr, n, st, in)
	case *ssa.BinOp:
		x.execBinOp(fr, n, st, in)
	case *ssa.FieldAddr, *ssa.IndexAddr:
		// resolved lazily as places; evaluate now so that safety conditions are recorded at the right point
		x.placeOf(fr, n, st, in.(ssa.Value))
	case *ssa.Field:
		xv := x.val(fr, n, st, in.X)
		si := x.ss.structInfoOf(in.X.Type())
		x.setVal(fr, n, in, Term{S: app(si.fields[in.Field].acc, xv.S), Sort: si.fields[in.Field].sort})
	case *ssa.Index:
		xv := x.val(fr, n, st, in.X)
		idx := x.val(fr, n, st, in.Index)
		switch u := types.Unalias(in.X.Type()).Underlying().(type) {
		case *types.Array:
			x.safety(fr, n, mkAnd(app("<=", "0", idx.S), app("<", idx.S, intLit(u.Len()))), "index", in.Pos())
			x.setVal(fr, n, in, Term{S: app("select", xv.S, idx.S), Sort: x.ss.sortOf(in.Type())})
		default: // string or type param
			x.safety(fr, n, mkAnd(app("<=", "0", idx.S), app("<", idx.S, app("u_slen", xv.S))), "index", in.Pos())
			x.setVal(fr, n, in, Term{S: app("u_sat", xv.S, idx.S), Sort: SInt})
		}
	case *ssa.Lookup:
		x.execLookup(fr, n, st, in)
	case *ssa.Extract:
		if ts, ok := fr.tuples[in.Tuple]; ok && in.Index < len(ts) {
			t := ts[in.Index]
			t.T = in.Type()
			fr.vals[in] = t
		} else {
			fr.vals[in] = x.fresh("extract", in.Type())
		}
	case *ssa.Convert:
		x.execConvert(fr, n, st, in)
	case *ssa.ChangeType:
		v := x.val(fr, n, st, in.X)
		v.T = in.Type()
		fr.vals[in] = v
	case *ssa.ChangeInterface:
		v := x.val(fr, n, st, in.X)
		v.T = in.Type()
		fr.vals[in] = v
	case *ssa.MultiConvert:
		fr.vals[in] = x.fresh("mconv", in.Type())
	case *ssa.SliceToArrayPointer:
		fr.vals[in] = x.fresh("s2a", in.Type())
	case *ssa.MakeInterface:
		v := x.val(fr, n, st, in.X)
		fr.vals[in] = x.makeIface(n, v, in.X.Type(), in.Type())
	case *ssa.TypeAssert:
		x.execTypeAssert(fr, n, st, in)
	case *ssa.MakeClosure:
		fnv := in.Fn.(*ssa.Function)
		ci := &closureInfo{fn: fnv}
		for _, b := range in.Bindings {
			ci.bindings = append(ci.bindings, x.val(fr, n, st, b))
		}
		r := x.allocRef(n, st, "closure")
		t := Term{S: r, Sort: SInt, T: in.Type()}
		fr.vals[in] = t
		fr.closures[in] = ci
	case *ssa.MakeMap:
		r := x.allocRef(n, st, "map")
		fr.vals[in] = Term{S: r, Sort: SInt, T: in.Type()}
		m := types.Unalias(in.Type()).Underlying().(*types.Map)
		d, _ := x.heapMap(m)
		ks := x.ss.sortOf(m.Key())
		x.setNamed(n, st, d, app("store", x.get(st, d).S, r, "((as const (Array "+ks+" Bool)) false)"))
	case *ssa.MakeSlice:
		ln := x.val(fr, n, st, in.Len)
		cp := x.val(fr, n, st, in.Cap)
		x.safety(fr, n, mkAnd(app("<=", "0", ln.S), app("<=", ln.S, cp.S)), "makeslice", in.Pos())
		r := x.allocRef(n, st, "mkslice")
		et := types.Unalias(in.Type()).Underlying().(*types.Slice).Elem()
		h := x.heapElem(et)
		es := x.ss.sortOf(et)
		x.setNamed(n, st, h, app("store", x.get(st, h).S, r, "((as const (Array Int "+es+")) "+x.ss.zero(et).S+")"))
		x.setVal(fr, n, in, Term{S: app("mk_Slice", r, "0", ln.S, cp.S), Sort: SSlice})
	case *ssa.MakeChan:
		r := x.allocRef(n, st, "chan")
		fr.vals[in] = Term{S: r, Sort: SInt, T: in.Type()}
	case *ssa.MapUpdate:
		m := x.val(fr, n, st, in.Map)
		k := x.val(fr, n, st, in.Key)
		v := x.val(fr, n, st, in.Value)
		// arg0 = the map, arg1 = the key, arg2 = the value
		x.atAsserts(fr, n, st, "store", []string{"mapupdate"}, in, m, k, v)
		mt, ok := types.Unalias(in.Map.Type()).Underlying().(*types.Map)
		if !ok {
			break
		}
		x.safety(fr, n, app("not", app("=", m.S, "0")), "nil-map-write", in.Pos())
		d, vv := x.heapMap(mt)
		dh, vh := x.get(st, d).S, x.get(st, vv).S
		x.setNamed(n, st, d, app("store", dh, m.S, app("store", app("select", dh, m.S), k.S, "true")))
		x.setNamed(n, st, vv, app("store", vh, m.S, app("store", app("select", vh, m.S), k.S, v.S)))
	case *ssa.Slice:
		x.execSlice(fr, n, st, in)
	case *ssa.Range:
		x.execRange(fr, n, st, in)
	case *ssa.Next:
		x.execNext(fr, n, st, in)
	case *ssa.Call:
		return x.execCall(fr, n, st, in, in.Common(), in)
	case *ssa.Defer:
		// executed at RunDefers
	case *ssa.RunDefers:
		return x.runDefers(fr, n, st, in)
	case *ssa.Go:
		x.atAsserts(fr, n, st, "call", []string{"go"}, in)
		x.havocCallee(fr, n, st, in.Common())
		x.afterCall(&callCtx{x: x, fr: fr, n: n, st: st, instr: in, common: in.Common()}, []string{"go"})
		x.vc.note("%s: go statement; the spawned function's effects are applied as an arbitrary write to its write set (no interleaving)", fr.fn.Name())
	case *ssa.Send:
		x.vc.note("%s: channel send not modelled", fr.fn.Name())
	case *ssa.Select:
		x.vc.note("%s: select not modelled", fr.fn.Name())
		fr.tuples[in] = nil
	default:
		x.vc.note("%s: instruction %T not modelled", fr.fn.Name(), in)
		if v, ok := in.(ssa.Value); ok {
			fr.vals[v] = x.fresh("unk", v.Type())
		}
	}
	return n
}

func (x *Exec) execUnOp(fr *Frame, n *Node, st *State, in *ssa.UnOp) {
	switch in.Op {
	case token.MUL: // load
		p := x.placeOf(fr, n, st, in.X)
		if p == nil {
			p = x.ptrPlace(fr, n, st, in.X)
		}
		t := x.loadPlace(n, st, p)
		x.setVal(fr, n, in, t)
		if p.kind != pVar {
			x.assumeAllocated(n, st, fr.vals[in])
		}
	case token.NOT:
		v := x.val(fr, n, st, in.X)
		x.setVal(fr, n, in, Term{S: mkNot(v.S), Sort: SBool})
	case token.SUB:
		v := x.val(fr, n, st, in.X)
		x.setVal(fr, n, in, Term{S: app("-", v.S), Sort: v.Sort})
	case token.ARROW:
		if in.CommaOk {
			fr.tuples[in] = []Term{x.fresh("recv", in.Type().(*types.Tuple).At(0).Type()), x.fresh("recvok", types.Typ[types.Bool])}
		} else {
			fr.vals[in] = x.fresh("recv", in.Type())
		}
		x.vc.note("%s: channel receive yields an unconstrained value", fr.fn.Name())
	case token.XOR:
		fr.vals[in] = x.fresh("bitnot", in.Type())
	default:
		fr.vals[in] = x.fresh("unop", in.Type())
	}
}

func isUnsigned(t types.Type) bool {
	b, ok := types.Unalias(t).Underlying().(*types.Basic)
	return ok && b.Info()&types.IsUnsigned != 0
}

func (x *Exec) execBinOp(fr *Frame, n *Node, st *State, in *ssa.BinOp) {
	a := x.val(fr, n, st, in.X)
	b := x.val(fr, n, st, in.Y)
	res := x.binop(fr, n, in.Op, a, b, in.X.Type(), in.Type(), in.Pos())
	x.setVal(fr, n, in, res)
}

func (x *Exec) binop(fr *Frame, n *Node, op token.Token, a, b Term, opType, resType types.Type, pos token.Pos) Term {
	s := a.Sort
	switch op {
	case token.EQL:
		return Term{S: x.eqTerm(a, b, opType), Sort: SBool}
	case token.NEQ:
		return Term{S: mkNot(x.eqTerm(a, b, opType)), Sort: SBool}
	}
	if s == SStr {
		switch op {
		case token.ADD:
			return x.strCat(a, b)
		case token.LSS:
			return Term{S: app("u_slt", a.S, b.S), Sort: SBool}
		case token.GTR:
			return Term{S: app("u_slt", b.S, a.S), Sort: SBool}
		case token.LEQ:
			return Term{S: mkNot(app("u_slt", b.S, a.S)), Sort: SBool}
		case token.GEQ:
			return Term{S: mkNot(app("u_slt", a.S, b.S)), Sort: SBool}
		}
	}
	if s == SInt || s == SReal {
		switch op {
		case token.ADD:
			return Term{S: app("+", a.S, b.S), Sort: s}
		case token.SUB:
			return Term{S: app("-", a.S, b.S), Sort: s}
		case token.MUL:
			return Term{S: app("*", a.S, b.S), Sort: s}
		case token.QUO:
			if s == SReal {
				return Term{S: app("/", a.S, b.S), Sort: s}
			}
			if fr != nil {
				x.safety(fr, n, app("not", app("=", b.S, "0")), "div-zero", pos)
			}
			return Term{S: app("go_div", a.S, b.S), Sort: s}
		case token.REM:
			if fr != nil {
				x.safety(fr, n, app("not", app("=", b.S, "0")), "div-zero", pos)
			}
			return Term{S: app("go_rem", a.S, b.S), Sort: s}
		case token.LSS:
			return Term{S: app("<", a.S, b.S), Sort: SBool}
		case token.LEQ:
			return Term{S: app("<=", a.S, b.S), Sort: SBool}
		case token.GTR:
			return Term{S: app(">", a.S, b.S), Sort: SBool}
		case token.GEQ:
			return Term{S: app(">=", a.S, b.S), Sort: SBool}
		}
	}
	if s == SBool {
		switch op {
		case token.AND, token.LAND:
			return Term{S: mkAnd(a.S, b.S), Sort: SBool}
		case token.OR, token.LOR:
			return Term{S: mkOr(a.S, b.S), Sort: SBool}
		}
	}
	// bit operations and everything else: uninterpreted but functional
	name := "uf_op_" + mangle(op.String()) + "_" + mangle(s)
	x.vc.declFun(name, []string{a.Sort, b.Sort}, x.ss.sortOf(resType))
	return Term{S: app(name, a.S, b.S), Sort: x.ss.sortOf(resType)}
}

func (x *Exec) eqTerm(a, b Term, t types.Type) string {
	if a.Sort == SSlice || b.Sort == SSlice {
		// only comparison with nil is legal
		other := a
		if isNilSlice(a.S) {
			other = b
		}
		return app("=", app("s.arr", other.S), "0")
	}
	if a.Sort == SIface && b.Sort == SIface {
		if isNilIface(a.S) {
			return app("=", app("i.tag", b.S), "0")
		}
		if isNilIface(b.S) {
			return app("=", app("i.tag", a.S), "0")
		}
	}
	return mkEq(a.S, b.S)
}

func (x *Exec) strCat(a, b Term) Term {
	empty := x.ss.strLit("")
	if a.S == empty {
		return b
	}
	if b.S == empty {
		return a
	}
	t := app("u_scat", a.S, b.S)
	if !mentionsBound(a.S) && !mentionsBound(b.S) {
		x.vc.axiom(mkEq(app("u_slen", t), app("+", app("u_slen", a.S), app("u_slen", b.S))))
	}
	return Term{S: t, Sort: SStr, T: types.Typ[types.String]}
}

func (x *Exec) execLookup(fr *Frame, n *Node, st *State, in *ssa.Lookup) {
	xv := x.val(fr, n, st, in.X)
	k := x.val(fr, n, st, in.Index)
	mt, ok := types.Unalias(in.X.Type()).Underlying().(*types.Map)
	if !ok { // string index
		x.safety(fr, n, mkAnd(app("<=", "0", k.S), app("<", k.S, app("u_slen", xv.S))), "index", in.Pos())
		x.setVal(fr, n, in, Term{S: app("u_sat", xv.S, k.S), Sort: SInt})
		return
	}
	// "at lookup map[#k] assert P": arg0 = the map, arg1 = the key
	x.atAsserts(fr, n, st, "lookup", []string{"map"}, in, xv, k)
	d, vv := x.heapMap(mt)
	has := mkAnd(mkNot(app("=", xv.S, "0")), app("select", app("select", x.get(st, d).S, xv.S), k.S))
	val := mkIte(has, app("select", app("select", x.get(st, vv).S, xv.S), k.S), x.ss.zero(mt.Elem()).S)
	vt := Term{S: val, Sort: x.ss.sortOf(mt.Elem()), T: mt.Elem()}
	if in.CommaOk {
		vt = x.nameTerm(n, "mapval", vt)
		x.assumeAllocated(n, st, vt)
		fr.tuples[in] = []Term{vt, {S: has, Sort: SBool, T: types.Typ[types.Bool]}}
		return
	}
	x.setVal(fr, n, in, vt)
	x.assumeAllocated(n, st, fr.vals[in])
}

func (x *Exec) execConvert(fr *Frame, n *Node, st *State, in *ssa.Convert) {
	v := x.val(fr, n, st, in.X)
	from, to := x.ss.sortOf(in.X.Type()), x.ss.sortOf(in.Type())
	switch {
	case from == to && from != SSlice:
		x.setVal(fr, n, in, Term{S: v.S, Sort: to})
	case from == SInt && to == SReal:
		x.setVal(fr, n, in, Term{S: app("to_real", v.S), Sort: SReal})
	case from == SReal && to == SInt:
		// truncation toward zero
		x.setVal(fr, n, in, Term{S: mkIte(app(">=", v.S, "0.0"), app("to_int", v.S), app("-", app("to_int", app("-", v.S)))), Sort: SInt})
	default:
		name := "uf_conv_" + mangle(typeKeyShort(in.X.Type())) + "_to_" + mangle(typeKeyShort(in.Type()))
		if from == SSlice && to == SStr {
			// string(bytes): a function of the bytes' contents at this moment
			if sl, ok := types.Unalias(in.X.Type()).Underlying().(*types.Slice); ok {
				fr.vals[in] = x.bytesToString(n, st, v, sl.Elem())
				return
			}
		}
		if from == SSlice || to == SSlice {
			// string -> []byte and other conversions: fresh contents of the same length
			fr.vals[in] = x.fresh("conv", in.Type())
			if to == SSlice {
				n.assume(wfSlice(fr.vals[in].S))
				if from == SStr {
					n.assume(mkEq(app("s.len", fr.vals[in].S), app("u_slen", v.S)))
					if sl, ok := types.Unalias(in.Type()).Underlying().(*types.Slice); ok {
						// bytes of the slice are the bytes of the string
						h := x.heapElem(sl.Elem())
						es := x.ss.sortOf(sl.Elem())
						at := x.elemAt(h, x.get(st, h).S, fr.vals[in].S, "j", es)
						n.assume(fmt.Sprintf("(forall ((j Int)) (! (=> (and (<= 0 j) (< j (u_slen %s))) (= %s (u_sat %s j))) :pattern (%s)))", v.S, at, v.S, at))
					}
				}
			}
			return
		}
		x.vc.declFun(name, []string{from}, to)
		x.setVal(fr, n, in, Term{S: app(name, v.S), Sort: to})
	}
}

// makeIface boxes a concrete value into an interface value.
func (x *Exec) makeIface(n *Node, v Term, concrete types.Type, ifaceT types.Type) Term {
	tag := x.ss.tagOf(concrete)
	var payload string
	switch v.Sort {
	case SInt:
		payload = v.S
	case SBool:
		payload = mkIte(v.S, "1", "0")
	default:
		box, unbox := x.boxFuns(v.Sort)
		payload = app(box, v.S)
		x.vc.axiom(mkEq(app(unbox, payload), v.S))
	}
	t := Term{S: app("mk_Iface", intLit(int64(tag)), payload), Sort: SIface, T: ifaceT}
	return x.nameTerm(n, "iface", t)
}

func (x *Exec) boxFuns(sort string) (string, string) {
	m := mangle(sort)
	box, unbox := "uf_box_"+m, "uf_unbox_"+m
	x.vc.declFun(box, []string{sort}, SInt)
	x.vc.declFun(unbox, []string{SInt}, sort)
	return box, unbox
}

func (x *Exec) unboxIface(v Term, concrete types.Type) Term {
	s := x.ss.sortOf(concrete)
	switch s {
	case SInt:
		return Term{S: app("i.val", v.S), Sort: SInt, T: concrete}
	case SBool:
		return Term{S: app("=", app("i.val", v.S), "1"), Sort: SBool, T: concrete}
	}
	_, unbox := x.boxFuns(s)
	return Term{S: app(unbox, app("i.val", v.S)), Sort: s, T: concrete}
}

func (x *Exec) execTypeAssert(fr *Frame, n *Node, st *State, in *ssa.TypeAssert) {
	v := x.val(fr, n, st, in.X)
	if types.IsInterface(in.AssertedType) {
		// interface-to-interface: dynamic method set unknown
		ok := x.fresh("implements", types.Typ[types.Bool])
		n.assume(mkImp(app("=", app("i.tag", v.S), "0"), mkNot(ok.S)))
		res := v
		res.T = in.AssertedType
		if in.CommaOk {
			fr.tuples[in] = []Term{{S: mkIte(ok.S, v.S, "niliface"), Sort: SIface, T: in.AssertedType}, ok}
		} else {
			x.safety(fr, n, ok.S, "type-assert", in.Pos())
			fr.vals[in] = res
		}
		return
	}
	tag := x.ss.tagOf(in.AssertedType)
	ok := app("=", app("i.tag", v.S), intLit(int64(tag)))
	val := x.unboxIface(v, in.AssertedType)
	if in.CommaOk {
		val.S = mkIte(ok, val.S, x.ss.zero(in.AssertedType).S)
		fr.tuples[in] = []Term{x.nameTerm(n, "ta", val), {S: ok, Sort: SBool, T: types.Typ[types.Bool]}}
		return
	}
	x.safety(fr, n, ok, "type-assert", in.Pos())
	x.setVal(fr, n, in, val)
}

func (x *Exec) execSlice(fr *Frame, n *Node, st *State, in *ssa.Slice) {
	var lo, hi, mx string
	if in.Low != nil {
		lo = x.val(fr, n, st, in.Low).S
	} else {
		lo = "0"
	}
	switch u := types.Unalias(in.X.Type()).Underlying().(type) {
	case *types.Basic: // string
		s := x.val(fr, n, st, in.X)
		if in.High != nil {
			hi = x.val(fr, n, st, in.High).S
		} else {
			hi = app("u_slen", s.S)
		}
		x.safety(fr, n, mkAnd(app("<=", "0", lo), app("<=", lo, hi), app("<=", hi, app("u_slen", s.S))), "slice-bounds", in.Pos())
		if in.Low == nil && in.High == nil {
			fr.vals[in] = s
			return
		}
		t := app("u_ssub", s.S, lo, hi)
		x.vc.axiom(mkImp(mkAnd(app("<=", "0", lo), app("<=", lo, hi), app("<=", hi, app("u_slen", s.S))), mkEq(app("u_slen", t), app("-", hi, lo))))
		x.setVal(fr, n, in, Term{S: t, Sort: SStr})
	case *types.Slice:
		s := x.val(fr, n, st, in.X)
		if in.High != nil {
			hi = x.val(fr, n, st, in.High).S
		} else {
			hi = app("s.len", s.S)
		}
		if in.Max != nil {
			mx = x.val(fr, n, st, in.Max).S
		} else {
			mx = app("s.cap", s.S)
		}
		x.safety(fr, n, mkAnd(app("<=", "0", lo), app("<=", lo, hi), app("<=", hi, mx), app("<=", mx, app("s.cap", s.S))), "slice-bounds", in.Pos())
		x.setVal(fr, n, in, Term{S: app("mk_Slice", app("s.arr", s.S), plus(app("s.off", s.S), lo), app("-", hi, lo), app("-", mx, lo)), Sort: SSlice})
	case *types.Pointer: // pointer to array
		arr := u.Elem().Underlying().(*types.Array)
		ref := x.val(fr, n, st, in.X)
		if in.High != nil {
			hi = x.val(fr, n, st, in.High).S
		} else {
			hi = intLit(arr.Len())
		}
		x.safety(fr, n, mkAnd(app("<=", "0", lo), app("<=", lo, hi), app("<=", hi, intLit(arr.Len()))), "slice-bounds", in.Pos())
		x.setVal(fr, n, in, Term{S: app("mk_Slice", ref.S, lo, app("-", hi, lo), app("-", intLit(arr.Len()), lo)), Sort: SSlice})
		if _, isIface := types.Unalias(arr.Elem()).Underlying().(*types.Interface); arr.Len() <= 8 && in.Low == nil && in.High == nil && !isIface {
			// the varargs idiom (new [k]T; stores; slice): seed the specification-level access terms of the k cells
			// (instances of the defining axiom of uf_at) and remember them for later heap versions
			h := x.heapElem(arr.Elem())
			es := x.ss.sortOf(arr.Elem())
			sv := fr.vals[in].S
			hv := x.get(st, h).S
			if simpleConst(sv) || len(sv) < 200 {
				for k := int64(0); k < arr.Len(); k++ {
					idx := intLit(k)
					n.assume(mkEq(x.elemAt(h, hv, sv, idx, es), app("select", app("select", hv, ref.S), idx)))
					x.noteLoad(h, sv, idx, es)
				}
			}
		}
	default:
		fr.vals[in] = x.fresh("slice", in.Type())
	}
}

// ---------------------------------------------------------------------------
// range over maps and strings

func (x *Exec) iterName(fr *Frame, r *ssa.Range) string {
	name := fmt.Sprintf("it%d.%s", fr.id, r.Name())
	if _, ok := x.vc.heapSort[name]; !ok {
		if mt, ok := types.Unalias(r.X.Type()).Underlying().(*types.Map); ok {
			x.vc.heapSort[name] = "(Array " + x.ss.sortOf(mt.Key()) + " Bool)"
		} else {
			x.vc.heapSort[name] = SInt
		}
	}
	return name
}

func (x *Exec) execRange(fr *Frame, n *Node, st *State, in *ssa.Range) {
	name := x.iterName(fr, in)
	fr.iterVar[in] = name
	xv := x.val(fr, n, st, in.X)
	fr.iterMap[in] = xv
	if mt, ok := types.Unalias(in.X.Type()).Underlying().(*types.Map); ok {
		x.set(st, name, "((as const (Array "+x.ss.sortOf(mt.Key())+" Bool)) false)")
	} else {
		x.set(st, name, "0")
	}
	fr.vals[in] = Term{S: "0", Sort: SInt, T: in.Type()}
}

func (x *Exec) execNext(fr *Frame, n *Node, st *State, in *ssa.Next) {
	r, _ := in.Iter.(*ssa.Range)
	tup := in.Type().(*types.Tuple)
	ok := x.fresh("next_ok", types.Typ[types.Bool])
	if r == nil {
		fr.tuples[in] = []Term{ok, x.fresh("k", tup.At(1).Type()), x.fresh("v", tup.At(2).Type())}
		return
	}
	name := x.iterName(fr, r)
	xv := fr.iterMap[r]
	if in.IsString {
		pos := x.get(st, name).S
		idx := x.fresh("ridx", types.Typ[types.Int])
		rn := x.fresh("rune", types.Typ[types.Rune])
		n.assume(mkImp(ok.S, mkAnd(app("=", idx.S, pos), app("<", idx.S, app("u_slen", xv.S)))))
		n.assume(mkEq(ok.S, app("<", pos, app("u_slen", xv.S))))
		np := x.fresh("rpos", types.Typ[types.Int])
		n.assume(mkAnd(app(">", np.S, pos), app("<=", np.S, app("u_slen", xv.S))))
		x.set(st, name, mkIte(ok.S, np.S, pos))
		fr.tuples[in] = []Term{ok, idx, rn}
		return
	}
	mt := types.Unalias(r.X.Type()).Underlying().(*types.Map)
	d, vv := x.heapMap(mt)
	dom := app("select", x.get(st, d).S, xv.S)
	vis := x.get(st, name).S
	k := x.fresh("rkey", mt.Key())
	ks := x.ss.sortOf(mt.Key())
	// ok => k in dom, not yet visited; !ok => every key of dom visited
	n.assume(mkImp(ok.S, mkAnd(mkNot(app("=", xv.S, "0")), app("select", dom, k.S), mkNot(app("select", vis, k.S)))))
	n.assume(mkImp(mkNot(ok.S), mkOr(app("=", xv.S, "0"), "(forall ((kk "+ks+")) (=> (select "+dom+" kk) (select "+vis+" kk)))")))
	val := Term{S: app("select", app("select", x.get(st, vv).S, xv.S), k.S), Sort: x.ss.sortOf(mt.Elem()), T: mt.Elem()}
	val = x.nameTerm(n, "rval", val)
	x.setNamed(n, st, name, mkIte(ok.S, app("store", vis, k.S, "true"), vis))
	fr.tuples[in] = []Term{ok, k, val}
}

// ---------------------------------------------------------------------------
// defers

func (x *Exec) runDefers(fr *Frame, n *Node, st *State, rd *ssa.RunDefers) *Node {
	var ds []*ssa.Defer
	for _, b := range fr.fn.Blocks {
		for _, in := range b.Instrs {
			if d, ok := in.(*ssa.Defer); ok {
				ds = append(ds, d)
			}
		}
	}
	for i := len(ds) - 1; i >= 0; i-- {
		d := ds[i]
		if d.Block().Dominates(rd.Block()) && (d.Block() != rd.Block() || instrIndex(d) < instrIndex(rd)) && fr.loops.inAnyLoop(d.Block()) == nil {
			n = x.execCall(fr, n, st, d, d.Common(), nil)
		} else if reaches(d.Block(), rd.Block()) {
			// conditionally registered defer: apply its effects as an arbitrary write
			x.havocCallee(fr, n, st, d.Common())
		}
	}
	return n
}

func (li *loopInfo) inAnyLoop(b *ssa.BasicBlock) *ssa.BasicBlock {
	for h, body := range li.body {
		if body[b] {
			return h
		}
	}
	return nil
}

func instrIndex(in ssa.Instruction) int {
	for i, o := range in.Block().Instrs {
		if o == in {
			return i
		}
	}
	return -1
}

func reaches(a, b *ssa.BasicBlock) bool {
	seen := map[*ssa.BasicBlock]bool{}
	var dfs func(c *ssa.BasicBlock) bool
	dfs = func(c *ssa.BasicBlock) bool {
		if c == b {
			return true
		}
		if seen[c] {
			return false
		}
		seen[c] = true
		for _, s := range c.Succs {
			if dfs(s) {
				return true
			}
		}
		return false
	}
	return dfs(a)
}

func fnDisplayName(fn *ssa.Function) string {
	s := fn.String()
	return strings.TrimPrefix(s, "github.com/cloudflare/pint/")
}

// bytesToString: string(b) as an uninterpreted function of the array contents, offset and length.
func (x *Exec) bytesToString(n *Node, st *State, v Term, elem types.Type) Term {
	h := x.heapElem(elem)
	es := x.ss.sortOf(elem)
	f := "uf_b2s_" + mangle(es)
	x.vc.declFun(f, []string{"(Array Int " + es + ")", SInt, SInt}, SStr)
	t := app(f, app("select", x.get(st, h).S, app("s.arr", v.S)), app("s.off", v.S), app("s.len", v.S))
	x.vc.axiom(mkEq(app("u_slen", t), app("s.len", v.S)))
	r := Term{S: t, Sort: SStr, T: types.Typ[types.String]}
	if n != nil {
		return x.nameTerm(n, "b2s", r)
	}
	return r
}

// mentionsBound: the term mentions a quantifier-bound variable (instance axioms must not capture those).
func mentionsBound(s string) bool {
	for id := range identSet(s) {
		if strings.HasPrefix(id, "q_") {
			return true
		}
	}
	return false
}
