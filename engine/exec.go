package main

import (
	"strconv"
	"os"
	"fmt"
	"go/constant"
	"go/token"
	"go/types"
	"sort"
	"strings"

	"golang.org/x/tools/go/ssa"
)

// ---------------------------------------------------------------------------
// State: mutable program state as named variables (local cells, heaps, globals, ghosts).

type State struct {
	vars map[string]Term
}

func newState() *State { return &State{vars: map[string]Term{}} }

func (s *State) clone() *State {
	n := &State{vars: make(map[string]Term, len(s.vars))}
	for k, v := range s.vars {
		n.vars[k] = v
	}
	return n
}

type Exec struct {
	vc      *VC
	prog    *Program
	ss      *Sorts
	frameID int
	top     *Frame
	maxInline int
	inlined   int
	elemLoads map[string][]elemLoad // per element heap: the slice accesses made by the code so far
	methCache map[string]string     // dispatch term of a niladic interface method -> the constant naming it
	methEval  map[string]Term       // (receiver, method, heap versions) -> dispatch value already computed
}

type elemLoad struct{ slice, idx, es string }

const maxReseed = 24

// noteLoad records a code-level slice access; reseed re-states the instance of the uf_at axiom for every recorded
// access under a new version of the heap, so that quantified facts about s[i] written in one state can be
// instantiated at the touched indices in a later state (the instances are valid for every heap: plain axioms).
func (x *Exec) noteLoad(heap, slice, idx, es string) {
	if x.elemLoads == nil {
		x.elemLoads = map[string][]elemLoad{}
	}
	for _, l := range x.elemLoads[heap] {
		if l.slice == slice && l.idx == idx {
			return
		}
	}
	if len(x.elemLoads[heap]) < maxReseed {
		x.elemLoads[heap] = append(x.elemLoads[heap], elemLoad{slice, idx, es})
	}
}

func (x *Exec) reseed(heap, version string) {
	if len(version) > 60 || strings.ContainsAny(version, "( ") {
		return
	}
	for _, l := range x.elemLoads[heap] {
		root := app("select", app("select", version, app("s.arr", l.slice)), app("+", app("s.off", l.slice), l.idx))
		x.vc.axiom(mkEq(x.elemAt(heap, version, l.slice, l.idx, l.es), root))
	}
}

func (x *Exec) varSort(name string) string {
	if s, ok := x.vc.heapSort[name]; ok {
		return s
	}
	if name == allocVar {
		x.vc.heapSort[allocVar] = SInt
		return SInt
	}
	if s, ok := x.prog.heapSorts[name]; ok {
		return s
	}
	panic("unknown state variable " + name)
}

func (x *Exec) initConst(name string) string {
	c := "v_" + mangle(name) + "_in"
	if _, ok := x.vc.consts[c]; !ok {
		x.vc.declConst(c, x.varSort(name))
		if name != allocVar {
			x.heapRefsAllocated(name, c, x.initConst(allocVar))
		}
	}
	return c
}

// heapRefsAllocated: every reference stored in a heap refers to an object allocated earlier (a pointer cannot
// point at an object that does not exist yet). Stated for heaps whose elements are pointers, maps or slices.
func (x *Exec) heapRefsAllocated(name, heap, alloc string) {
	et, ok := x.prog.heapElemType[name]
	if !ok {
		return
	}
	if _, ok := x.vc.heapSort[allocVar]; !ok {
		x.vc.heapSort[allocVar] = SInt
	}
	// the references held by a value of type et (directly, or in the fields of a struct value, two levels deep)
	var refsOf func(t types.Type, sel string, depth int) []string
	refsOf = func(t types.Type, sel string, depth int) []string {
		switch u := types.Unalias(t).Underlying().(type) {
		case *types.Pointer, *types.Map:
			return []string{sel}
		case *types.Slice:
			return []string{app("s.arr", sel)}
		case *types.Struct:
			if depth >= nestedBoundDepth || isTimeTime(t) {
				return nil
			}
			si := x.ss.structInfoOf(t)
			var out []string
			for i := 0; i < u.NumFields() && i < len(si.fields); i++ {
				out = append(out, refsOf(u.Field(i).Type(), app(si.fields[i].acc, sel), depth+1)...)
			}
			return out
		}
		return nil
	}
	var sel, binders string
	if strings.HasPrefix(name, "HA.") {
		sel, binders = app("select", app("select", heap, "r"), "j"), "((r Int) (j Int))"
	} else if strings.HasPrefix(name, "Hf.") || strings.HasPrefix(name, "Hp.") {
		sel, binders = app("select", heap, "r"), "((r Int))"
	} else {
		return
	}
	refs := refsOf(et, sel, 0)
	if len(refs) == 0 {
		return
	}
	var bounds []string
	for _, r := range refs {
		bounds = append(bounds, app("<", r, alloc))
	}
	x.vc.axiom(fmt.Sprintf("(forall %s (! %s :pattern (%s)))", binders, mkAnd(bounds...), sel))
}

func (x *Exec) get(st *State, name string) Term {
	if t, ok := st.vars[name]; ok {
		return t
	}
	return Term{S: x.initConst(name), Sort: x.varSort(name)}
}

func (x *Exec) set(st *State, name string, t string) {
	prev, had := st.vars[name]
	st.vars[name] = Term{S: t, Sort: x.varSort(name)}
	if strings.HasPrefix(name, "HA.") {
		x.reseed(name, t)
		if !had && x.elemLinksOn() {
			prev, had = Term{S: x.initConst(name)}, true
		}
		if had {
			x.linkHeaps(name, prev.S, t)
		}
	}
}

// how deep into struct-typed heap values the "references are below the allocation counter" axiom looks
var nestedBoundDepth = func() int {
	if v := os.Getenv("GOVC_NESTED_BOUNDS"); v != "" {
		n, _ := strconv.Atoi(v)
		return n
	}
	return 2
}()

func simpleConst(s string) bool { return s != "" && len(s) <= 60 && !strings.ContainsAny(s, "( ") }

func (x *Exec) elemLinksOn() bool {
	return x.top != nil && x.top.contract != nil && x.top.contract.Options["elemlinks"]
}

// linkHeaps (option elemlinks): whenever the specification-level access s[i] is known under one version of an element
// heap, also consider it under the neighbouring version. Both formulas are instances of the defining axiom of uf_at
// with another trigger, so nothing is assumed; they let quantified facts survive unrelated heap updates.
func (x *Exec) linkHeaps(heap, from, to string) {
	if !x.elemLinksOn() || from == to || !simpleConst(from) || !simpleConst(to) {
		return
	}
	hs := x.varSort(heap)
	es := hs[len("(Array Int (Array Int ") : len(hs)-2]
	def := func(h string) string {
		return mkEq(x.elemAt(heap, h, "s", "i", es), app("select", app("select", h, "(s.arr s)"), "(+ (s.off s) i)"))
	}
	x.vc.axiom(fmt.Sprintf("(forall ((s Slice) (i Int)) (! %s :pattern (%s)))", def(to), x.elemAt(heap, from, "s", "i", es)))
	x.vc.axiom(fmt.Sprintf("(forall ((s Slice) (i Int)) (! %s :pattern (%s)))", def(from), x.elemAt(heap, to, "s", "i", es)))
}

// name binds a possibly large term to a fresh constant in node n.
func (x *Exec) nameTerm(n *Node, hint string, t Term) Term {
	if len(t.S) < 48 {
		return t
	}
	c := x.vc.freshConst(hint, t.Sort)
	n.assume(mkEq(c, t.S))
	return Term{S: c, Sort: t.Sort, T: t.T}
}

func (x *Exec) fresh(hint string, t types.Type) Term {
	s := x.ss.sortOf(t)
	if s == "Tuple" {
		s = SInt
	}
	return Term{S: x.vc.freshConst(hint, s), Sort: s, T: t}
}

func (x *Exec) freshSort(hint, sort string) Term {
	return Term{S: x.vc.freshConst(hint, sort), Sort: sort}
}

// heap variable names -------------------------------------------------------

func (x *Exec) heapField(t types.Type, fi int) (string, *structInfo) {
	return x.prog.heapFieldName(t, fi), x.ss.structInfoOf(t)
}

func (x *Exec) heapElem(elem types.Type) string { return x.prog.heapElemName(elem) }

func elemKey(ss *Sorts, elem types.Type) string {
	elem = types.Unalias(elem)
	if si := ss.structInfoOf(elem); si != nil && !isTimeTime(elem) {
		return si.name
	}
	return mangle(typeKeyShort(elem))
}

func typeKeyShort(t types.Type) string {
	return types.TypeString(t, func(p *types.Package) string { return p.Name() })
}

func (x *Exec) heapPtr(t types.Type) string { return x.prog.heapPtrName(t) }

func (x *Exec) heapMap(m *types.Map) (dom, val string) { return x.prog.heapMapNames(m) }

func (x *Exec) globalVar(g *ssa.Global) string { return x.prog.globalName(g) }

func deref(t types.Type) types.Type {
	if p, ok := types.Unalias(t).Underlying().(*types.Pointer); ok {
		return p.Elem()
	}
	return t
}

const allocVar = "$alloc"

func (x *Exec) allocRef(n *Node, st *State, hint string) string {
	if _, ok := x.vc.heapSort[allocVar]; !ok {
		x.vc.heapSort[allocVar] = SInt
		x.vc.axiom(app(">", x.initConst(allocVar), "0"))
	}
	cur := x.get(st, allocVar)
	r := x.vc.freshConst(hint, SInt)
	n.assume(mkEq(r, cur.S))
	n.assume(app(">", r, "0"))
	x.set(st, allocVar, app("+", r, "1"))
	return r
}

// assumeAllocated: references that exist in the program state were allocated before now.
func (x *Exec) assumeAllocated(n *Node, st *State, t Term) {
	if t.T == nil {
		return
	}
	if _, ok := x.vc.heapSort[allocVar]; !ok {
		x.vc.heapSort[allocVar] = SInt
		x.vc.axiom(app(">", x.initConst(allocVar), "0"))
	}
	cur := x.get(st, allocVar).S
	switch types.Unalias(t.T).Underlying().(type) {
	case *types.Struct:
		x.assumeWF(n, t, 0)
		x.assumeFieldsAllocated(n, t, cur, 0)
	case *types.Pointer, *types.Map:
		n.assume(mkAnd(app("<", t.S, cur), app(">=", t.S, "0")))
	case *types.Slice:
		n.assume(mkAnd(app("<", app("s.arr", t.S), cur), wfSlice(t.S)))
	case *types.Basic:
		if b := types.Unalias(t.T).Underlying().(*types.Basic); b.Info()&types.IsUnsigned != 0 {
			n.assume(app(">=", t.S, "0"))
		}
	}
}

// assumeWF: representation invariants of a value of a Go type (slice headers inside structs, unsigned fields).
func (x *Exec) assumeWF(n *Node, t Term, depth int) {
	if t.T == nil || depth > 3 {
		return
	}
	switch u := types.Unalias(t.T).Underlying().(type) {
	case *types.Slice:
		n.assume(wfSlice(t.S))
	case *types.Basic:
		if u.Info()&types.IsUnsigned != 0 {
			n.assume(app(">=", t.S, "0"))
		}
	case *types.Struct:
		if isTimeTime(t.T) {
			return
		}
		si := x.ss.structInfoOf(t.T)
		for _, f := range si.fields {
			switch f.sort {
			case SSlice:
				n.assume(wfSlice(app(f.acc, t.S)))
			case SInt:
				if isUnsigned(f.typ) {
					n.assume(app(">=", app(f.acc, t.S), "0"))
				}
			default:
				if _, ok := types.Unalias(f.typ).Underlying().(*types.Struct); ok {
					x.assumeWF(n, Term{S: app(f.acc, t.S), Sort: f.sort, T: f.typ}, depth+1)
				}
			}
		}
	}
}

// assumeFieldsAllocated: references held in the fields of a struct value were allocated before now.
func (x *Exec) assumeFieldsAllocated(n *Node, t Term, alloc string, depth int) {
	if t.T == nil || depth > 2 || isTimeTime(t.T) {
		return
	}
	si := x.ss.structInfoOf(t.T)
	if si == nil {
		return
	}
	for _, f := range si.fields {
		sel := app(f.acc, t.S)
		switch types.Unalias(f.typ).Underlying().(type) {
		case *types.Pointer, *types.Map:
			n.assume(app("<", sel, alloc))
		case *types.Slice:
			n.assume(app("<", app("s.arr", sel), alloc))
		case *types.Struct:
			x.assumeFieldsAllocated(n, Term{S: sel, Sort: f.sort, T: f.typ}, alloc, depth+1)
		}
	}
}

func wfSlice(s string) string {
	return mkAnd(app(">=", app("s.arr", s), "0"), app(">=", app("s.off", s), "0"), app(">=", app("s.len", s), "0"), app(">=", app("s.cap", s), app("s.len", s)),
		app("=>", app("=", app("s.arr", s), "0"), app("=", app("s.cap", s), "0")))
}

// ---------------------------------------------------------------------------
// Places

type placeKind int

const (
	pVar placeKind = iota
	pField
	pElem
	pPtr
	pObj
	pOpaque
)

type pathStep struct {
	si    *structInfo
	fidx  int
	index string // array index term when si == nil
	sort  string // sort of the container at this step
}

type Place struct {
	kind    placeKind
	varName string
	ref     string
	idx     string
	path    []pathStep
	typ     types.Type // type of the value stored at the place
	rootSort string
	slice   string // pElem reached through a slice value: the slice term and the index into it
	sidx    string
}

func (x *Exec) applyPath(root string, path []pathStep) string {
	cur := root
	for _, p := range path {
		if p.si != nil {
			cur = app(p.si.fields[p.fidx].acc, cur)
		} else {
			cur = app("select", cur, p.index)
		}
	}
	return cur
}

func (x *Exec) updatePath(root string, path []pathStep, v string) string {
	if len(path) == 0 {
		return v
	}
	p := path[0]
	if p.si != nil {
		inner := x.updatePath(app(p.si.fields[p.fidx].acc, root), path[1:], v)
		args := make([]string, len(p.si.fields))
		for i, f := range p.si.fields {
			if i == p.fidx {
				args[i] = inner
			} else {
				args[i] = app(f.acc, root)
			}
		}
		return app("mk_"+p.si.name, args...)
	}
	inner := x.updatePath(app("select", root, p.index), path[1:], v)
	return app("store", root, p.index, inner)
}

func (x *Exec) loadPlace(n *Node, st *State, p *Place) Term {
	sortT := x.ss.sortOf(p.typ)
	switch p.kind {
	case pVar:
		root := x.get(st, p.varName).S
		return Term{S: x.applyPath(root, p.path), Sort: sortT, T: p.typ}
	case pField, pPtr:
		root := app("select", x.get(st, p.varName).S, p.ref)
		return Term{S: x.applyPath(root, p.path), Sort: sortT, T: p.typ}
	case pElem:
		root := app("select", app("select", x.get(st, p.varName).S, p.ref), p.idx)
		if p.slice != "" && n != nil {
			// seed the specification-level access term (an instance of its defining axiom) so that quantified
			// invariants over s[i] can be instantiated at the indices the code touches
			es := x.varSort(p.varName)
			es = es[len("(Array Int (Array Int ") : len(es)-2]
			n.assume(mkEq(x.elemAt(p.varName, x.get(st, p.varName).S, p.slice, p.sidx, es), root))
			x.noteLoad(p.varName, p.slice, p.sidx, es)
		}
		return Term{S: x.applyPath(root, p.path), Sort: sortT, T: p.typ}
	case pObj:
		si := x.ss.structInfoOf(p.typ)
		args := make([]string, len(si.fields))
		for i := range si.fields {
			h, _ := x.heapField(p.typ, i)
			args[i] = app("select", x.get(st, h).S, p.ref)
		}
		s := "mk_" + si.name
		if len(args) > 0 {
			s = app(s, args...)
		}
		return Term{S: s, Sort: sortT, T: p.typ}
	}
	return x.fresh("opaque_load", p.typ)
}

func (x *Exec) storePlace(n *Node, st *State, p *Place, v Term) {
	switch p.kind {
	case pVar:
		root := x.get(st, p.varName).S
		nv := x.updatePath(root, p.path, v.S)
		x.setNamed(n, st, p.varName, nv)
	case pField, pPtr:
		h := x.get(st, p.varName).S
		root := app("select", h, p.ref)
		nv := x.updatePath(root, p.path, v.S)
		x.setNamed(n, st, p.varName, app("store", h, p.ref, nv))
	case pElem:
		h := x.get(st, p.varName).S
		arr := app("select", h, p.ref)
		root := app("select", arr, p.idx)
		nv := x.updatePath(root, p.path, v.S)
		x.setNamed(n, st, p.varName, app("store", h, p.ref, app("store", arr, p.idx, nv)))
	case pObj:
		si := x.ss.structInfoOf(p.typ)
		for i, f := range si.fields {
			h, _ := x.heapField(p.typ, i)
			x.setNamed(n, st, h, app("store", x.get(st, h).S, p.ref, app(f.acc, v.S)))
		}
	case pOpaque:
	}
}

// setNamed stores a new value for a state variable, naming large terms.
func (x *Exec) setNamed(n *Node, st *State, name, term string) {
	if len(term) > 40 {
		c := x.vc.freshConst(shortVar(name), x.varSort(name))
		n.assume(mkEq(c, term))
		term = c
	}
	x.set(st, name, term)
}

func shortVar(name string) string {
	if i := strings.LastIndex(name, "."); i >= 0 && i+1 < len(name) {
		return name[i+1:]
	}
	return name
}

// havocFresh: the heap may have gained new objects, but every object allocated before allocPre is unchanged.
func (x *Exec) havocFresh(n *Node, st *State, name string, allocPre string) {
	old := x.get(st, name).S
	sort := x.varSort(name)
	if !strings.HasPrefix(sort, "(Array Int ") {
		x.havocVar(st, name)
		return
	}
	c := x.vc.freshConst(shortVar(name)+"_f", sort)
	n.assume(fmt.Sprintf("(forall ((r Int)) (! (=> (< r %s) (= (select %s r) (select %s r))) :pattern ((select %s r))))", allocPre, c, old, c))
	if strings.HasPrefix(name, "HA.") && x.elemLinksOn() && simpleConst(old) {
		n.assume(x.sliceFrame(name, old, c, app("<", "(s.arr s)", allocPre)))
	}
	x.set(st, name, c)
	x.heapRefsAllocated(name, c, x.allocNow(st))
}

// havocCalleeEffects applies a callee's write set and its allocation-only effects.
func (x *Exec) havocCalleeEffects(n *Node, st *State, callee *ssa.Function) {
	w, f := x.prog.modSets(callee)
	pre := x.allocNow(st)
	x.bumpAlloc(n, st)
	for _, h := range w {
		x.havocVar(st, h)
	}
	for _, h := range f {
		x.havocFresh(n, st, h, pre)
	}
}

func (x *Exec) allocNow(st *State) string {
	if _, ok := x.vc.heapSort[allocVar]; !ok {
		x.vc.heapSort[allocVar] = SInt
		x.vc.axiom(app(">", x.initConst(allocVar), "0"))
	}
	return x.get(st, allocVar).S
}

// bumpAlloc: an unknown amount of allocation happened.
func (x *Exec) bumpAlloc(n *Node, st *State) {
	pre := x.allocNow(st)
	c := x.vc.freshConst("alloc_h", SInt)
	n.assume(app(">=", c, pre))
	x.set(st, allocVar, c)
}

func (x *Exec) havocVar(st *State, name string) {
	c := x.vc.freshConst(shortVar(name)+"_h", x.varSort(name))
	x.set(st, name, c)
	if name != allocVar && (strings.HasPrefix(name, "HA.") || strings.HasPrefix(name, "Hf.") || strings.HasPrefix(name, "Hp.")) {
		x.heapRefsAllocated(name, c, x.allocNow(st))
	}
}

// ---------------------------------------------------------------------------
// Frames

type Frame struct {
	loopFieldMods map[*ssa.BasicBlock]map[string][]int // per loop: struct variables of which only these fields are assigned
	fn      *ssa.Function
	id      int
	vals    map[ssa.Value]Term
	places  map[ssa.Value]*Place
	tuples  map[ssa.Value][]Term
	closures map[ssa.Value]*closureInfo
	cellRep map[*ssa.Alloc]*ssa.Alloc // unification of loop-variable copies
	isCell  map[*ssa.Alloc]bool
	phiCell map[*ssa.Phi]*ssa.Alloc
	params  []Term
	entry   *State
	depth   int
	safe    bool
	contract *FuncContract
	loops   *loopInfo
	iterVar map[ssa.Value]string
	iterMap map[ssa.Value]Term
	callCount map[string]int
	retCount int
	loopHeadState map[*ssa.BasicBlock]*State
	loopVariant map[*ssa.BasicBlock]string
	lastState *State
	parent *Frame
	siteIDs map[string]map[ssa.Instruction]int
	derefDetail string
}

type closureInfo struct {
	fn       *ssa.Function
	bindings []Term
}

func (x *Exec) newFrame(fn *ssa.Function, depth int) *Frame {
	x.frameID++
	fr := &Frame{fn: fn, id: x.frameID, vals: map[ssa.Value]Term{}, places: map[ssa.Value]*Place{}, tuples: map[ssa.Value][]Term{},
		closures: map[ssa.Value]*closureInfo{}, depth: depth, iterVar: map[ssa.Value]string{}, iterMap: map[ssa.Value]Term{}, callCount: map[string]int{},
		loopHeadState: map[*ssa.BasicBlock]*State{}, loopVariant: map[*ssa.BasicBlock]string{}}
	fr.classifyAllocs()
	fr.loops = analyseLoops(fn)
	return fr
}

// classifyAllocs decides which Allocs are plain local cells (never escaping as a value).
func (fr *Frame) classifyAllocs() {
	fr.isCell = map[*ssa.Alloc]bool{}
	fr.cellRep = map[*ssa.Alloc]*ssa.Alloc{}
	fr.phiCell = map[*ssa.Phi]*ssa.Alloc{}
	var allocs []*ssa.Alloc
	for _, b := range fr.fn.Blocks {
		for _, in := range b.Instrs {
			if a, ok := in.(*ssa.Alloc); ok {
				allocs = append(allocs, a)
			}
		}
	}
	// candidate phis: all operands are allocs
	phiOK := map[*ssa.Phi]bool{}
	var addrOnly func(v ssa.Value, seen map[ssa.Value]bool) bool
	addrOnly = func(v ssa.Value, seen map[ssa.Value]bool) bool {
		if seen[v] {
			return true
		}
		seen[v] = true
		refs := v.Referrers()
		if refs == nil {
			return false
		}
		for _, r := range *refs {
			switch r := r.(type) {
			case *ssa.UnOp:
				if r.Op != token.MUL {
					return false
				}
			case *ssa.Store:
				if r.Val == v {
					return false
				}
			case *ssa.FieldAddr:
				if !addrOnly(r, seen) {
					return false
				}
			case *ssa.IndexAddr:
				if r.X != v || !addrOnly(r, seen) {
					return false
				}
			case *ssa.DebugRef:
			case *ssa.Phi:
				for _, e := range r.Edges {
					if _, ok := e.(*ssa.Alloc); !ok {
						return false
					}
				}
				if !addrOnly(r, seen) {
					return false
				}
				phiOK[r] = true
			default:
				return false
			}
		}
		return true
	}
	for _, a := range allocs {
		if _, isArr := deref(a.Type()).Underlying().(*types.Array); isArr && a.Heap {
			// heap arrays back slices; keep them as heap objects
			continue
		}
		if addrOnly(a, map[ssa.Value]bool{}) {
			fr.isCell[a] = true
		}
	}
	// unify allocs joined by a phi
	find := func(a *ssa.Alloc) *ssa.Alloc {
		for fr.cellRep[a] != nil && fr.cellRep[a] != a {
			a = fr.cellRep[a]
		}
		return a
	}
	for phi := range phiOK {
		var first *ssa.Alloc
		ok := true
		for _, e := range phi.Edges {
			a := e.(*ssa.Alloc)
			if !fr.isCell[a] {
				ok = false
			}
		}
		if !ok {
			for _, e := range phi.Edges {
				fr.isCell[e.(*ssa.Alloc)] = false
			}
			continue
		}
		for _, e := range phi.Edges {
			a := find(e.(*ssa.Alloc))
			if first == nil {
				first = a
			} else if a != first {
				fr.cellRep[a] = first
			}
		}
		fr.phiCell[phi] = first
	}
	for phi, a := range fr.phiCell {
		fr.phiCell[phi] = find(a)
	}
	for _, a := range allocs {
		if fr.isCell[a] {
			fr.cellRep[a] = find(a)
		}
	}
}

func (fr *Frame) cellName(a *ssa.Alloc) string {
	rep := fr.cellRep[a]
	if rep == nil {
		rep = a
	}
	c := rep.Comment
	if c == "" {
		c = "tmp"
	}
	return fmt.Sprintf("c%d.%s.%s", fr.id, rep.Name(), mangle(c))
}

func (x *Exec) cellVar(fr *Frame, a *ssa.Alloc) string {
	name := fr.cellName(a)
	if _, ok := x.vc.heapSort[name]; !ok {
		x.vc.heapSort[name] = x.ss.sortOf(deref(a.Type()))
		x.vc.cellType[name] = deref(a.Type())
	}
	return name
}

// ---------------------------------------------------------------------------
// Values

func (x *Exec) constTerm(c *ssa.Const) Term {
	t := c.Type()
	if c.Value == nil {
		return x.ss.zero(t)
	}
	s := x.ss.sortOf(t)
	switch s {
	case SBool:
		if constant.BoolVal(c.Value) {
			return Term{S: "true", Sort: SBool, T: t}
		}
		return Term{S: "false", Sort: SBool, T: t}
	case SInt:
		if c.Value.Kind() == constant.Int {
			if v, ok := constant.Int64Val(c.Value); ok {
				return Term{S: intLit(v), Sort: SInt, T: t}
			}
			str := c.Value.ExactString()
			if strings.HasPrefix(str, "-") {
				return Term{S: "(- " + str[1:] + ")", Sort: SInt, T: t}
			}
			return Term{S: str, Sort: SInt, T: t}
		}
		if v, ok := constant.Int64Val(constant.ToInt(c.Value)); ok {
			return Term{S: intLit(v), Sort: SInt, T: t}
		}
	case SReal:
		f, _ := constant.Float64Val(c.Value)
		return Term{S: realLit(f), Sort: SReal, T: t}
	case SStr:
		return Term{S: x.ss.strLit(constant.StringVal(c.Value)), Sort: SStr, T: t}
	}
	return x.fresh("const", t)
}

func realLit(f float64) string {
	s := fmt.Sprintf("%f", f)
	if f < 0 {
		return "(- " + s[1:] + ")"
	}
	return s
}

// val returns the SMT term of an SSA value in the frame.
func (x *Exec) val(fr *Frame, n *Node, st *State, v ssa.Value) Term {
	switch v := v.(type) {
	case *ssa.Const:
		return x.constTerm(v)
	case *ssa.Function:
		c := "v_fn_" + mangle(v.String())
		x.vc.declConst(c, SInt)
		x.vc.axiom(app(">", c, "0"))
		return Term{S: c, Sort: SInt, T: v.Type()}
	case *ssa.Global:
		c := "v_gaddr_" + mangle(v.String())
		x.vc.declConst(c, SInt)
		x.vc.axiom(app(">", c, "0"))
		return Term{S: c, Sort: SInt, T: v.Type()}
	case *ssa.Builtin:
		return x.fresh("builtin", types.Typ[types.Int])
	}
	if t, ok := fr.vals[v]; ok {
		return t
	}
	if p := x.placeOf(fr, n, st, v); p != nil {
		// a place used as a value: materialise
		if p.kind == pObj {
			return Term{S: p.ref, Sort: SInt, T: v.Type()}
		}
		t := x.fresh("addr_"+v.Name(), v.Type())
		n.assume(app(">", t.S, "0"))
		fr.vals[v] = t
		return t
	}
	x.vc.note("%s: value %s (%T) used before definition; treated as unknown", fr.fn.Name(), v.Name(), v)
	t := x.fresh("undef_"+v.Name(), v.Type())
	fr.vals[v] = t
	return t
}

// placeOf resolves a pointer-valued SSA value to a place.
func (x *Exec) placeOf(fr *Frame, n *Node, st *State, v ssa.Value) *Place {
	if p, ok := fr.places[v]; ok {
		return p
	}
	var p *Place
	switch v := v.(type) {
	case *ssa.Alloc:
		if fr.isCell[v] {
			p = &Place{kind: pVar, varName: x.cellVar(fr, v), typ: deref(v.Type())}
		}
	case *ssa.Phi:
		if a := fr.phiCell[v]; a != nil {
			p = &Place{kind: pVar, varName: x.cellVar(fr, a), typ: deref(v.Type())}
		}
	case *ssa.Global:
		p = &Place{kind: pVar, varName: x.globalVar(v), typ: deref(v.Type())}
	case *ssa.FieldAddr:
		base := x.placeOf(fr, n, st, v.X)
		if base == nil {
			fr.derefDetail = fieldNameOf(v)
			base = x.ptrPlace(fr, n, st, v.X)
			fr.derefDetail = ""
		}
		p = x.fieldPlace(base, v.Field)
	case *ssa.IndexAddr:
		xt := types.Unalias(v.X.Type()).Underlying()
		idx := x.val(fr, n, st, v.Index).S
		switch xt := xt.(type) {
		case *types.Slice:
			s := x.val(fr, n, st, v.X)
			x.safety(fr, n, mkAnd(app("<=", "0", idx), app("<", idx, app("s.len", s.S))), "index", v.Pos())
			p = &Place{kind: pElem, varName: x.heapElem(xt.Elem()), ref: app("s.arr", s.S), idx: plus(app("s.off", s.S), idx), typ: xt.Elem(), slice: s.S, sidx: idx}
		case *types.Pointer:
			arr := xt.Elem().Underlying().(*types.Array)
			x.safety(fr, n, mkAnd(app("<=", "0", idx), app("<", idx, intLit(arr.Len()))), "index", v.Pos())
			base := x.placeOf(fr, n, st, v.X)
			if base != nil && base.kind != pObj {
				q := *base
				q.path = append(append([]pathStep{}, base.path...), pathStep{index: idx})
				q.typ = arr.Elem()
				p = &q
			} else {
				ref := x.val(fr, n, st, v.X).S
				p = &Place{kind: pElem, varName: x.heapElem(arr.Elem()), ref: ref, idx: idx, typ: arr.Elem()}
			}
		}
	}
	if p != nil {
		fr.places[v] = p
	}
	return p
}

func plus(a, b string) string {
	if a == "0" {
		return b
	}
	if b == "0" {
		return a
	}
	return app("+", a, b)
}

// ptrPlace: the place a pointer *value* points to.
func (x *Exec) ptrPlace(fr *Frame, n *Node, st *State, v ssa.Value) *Place {
	ref := x.val(fr, n, st, v)
	return x.ptrPlaceT(fr, n, ref, v.Pos())
}

func (x *Exec) ptrPlaceT(fr *Frame, n *Node, ref Term, pos token.Pos) *Place {
	et := deref(ref.T)
	if fr != nil {
		detail := fr.derefDetail
		if detail == "" {
			// a whole-value load through a pointer (`*p`, a value-receiver method call on a pointer): name the pointee type
			if nt, ok := types.Unalias(et).(*types.Named); ok {
				detail = nt.Obj().Name()
			}
		}
		x.safety(fr, n, app("not", app("=", ref.S, "0")), "nil-deref", pos, detail)
	}
	switch et.Underlying().(type) {
	case *types.Struct:
		if isTimeTime(et) {
			return &Place{kind: pPtr, varName: x.heapPtr(et), ref: ref.S, typ: et}
		}
		return &Place{kind: pObj, ref: ref.S, typ: et}
	case *types.Array:
		// pointer to array object: whole-array access
		return &Place{kind: pPtr, varName: x.heapElem(et.Underlying().(*types.Array).Elem()), ref: ref.S, typ: et}
	}
	return &Place{kind: pPtr, varName: x.heapPtr(et), ref: ref.S, typ: et}
}

func (x *Exec) fieldPlace(base *Place, field int) *Place {
	si := x.ss.structInfoOf(base.typ)
	ft := si.fields[field].typ
	if base.kind == pObj {
		h, _ := x.heapField(base.typ, field)
		return &Place{kind: pField, varName: h, ref: base.ref, typ: ft}
	}
	q := *base
	q.path = append(append([]pathStep{}, base.path...), pathStep{si: si, fidx: field})
	q.typ = ft
	return &q
}

// safety records an implicit-panic condition: an obligation in `safe` top-level functions, an assumption elsewhere.
func (x *Exec) safety(fr *Frame, n *Node, cond string, kind string, pos token.Pos, detail ...string) {
	if cond == "true" {
		return
	}
	wanted := true
	if fr.contract != nil && len(fr.contract.SafeKinds) > 0 {
		wanted = false
		for _, k := range fr.contract.SafeKinds {
			if k == kind {
				wanted = true
			}
			for _, d := range detail {
				if k == kind+":"+d {
					wanted = true
				}
			}
		}
	}
	if fr.safe && fr.depth == 0 && wanted {
		fr.callCount["safe:"+kind]++
		ob := &Obligation{
			Name:   fmt.Sprintf("%s#safe:%s#%d", fr.contract.Key(), kind, fr.callCount["safe:"+kind]),
			Kind:   "safe",
			Fn:     fr.contract.Key(),
			Props:  fr.contract.Props,
			Clause: kind,
			Pos:    x.prog.pos(pos),
		}
		x.vc.assert(n, cond, ob)
		return
	}
	n.assume(cond)
}

// ---------------------------------------------------------------------------
// Loop analysis

type loopInfo struct {
	headers []*ssa.BasicBlock          // in ordinal order
	ordinal map[*ssa.BasicBlock]int    // 1-based
	body    map[*ssa.BasicBlock]map[*ssa.BasicBlock]bool
	isBack  map[[2]int]bool            // edge (from,to) indices
	rpo     []*ssa.BasicBlock
	irreducible bool
}

func analyseLoops(fn *ssa.Function) *loopInfo {
	li := &loopInfo{ordinal: map[*ssa.BasicBlock]int{}, body: map[*ssa.BasicBlock]map[*ssa.BasicBlock]bool{}, isBack: map[[2]int]bool{}}
	if len(fn.Blocks) == 0 {
		return li
	}
	for _, b := range fn.Blocks {
		for _, s := range b.Succs {
			if s.Dominates(b) {
				li.isBack[[2]int{b.Index, s.Index}] = true
				if li.body[s] == nil {
					li.body[s] = map[*ssa.BasicBlock]bool{s: true}
					li.headers = append(li.headers, s)
				}
				// natural loop: all nodes that reach b without passing through s
				var stack []*ssa.BasicBlock
				if !li.body[s][b] {
					li.body[s][b] = true
					stack = append(stack, b)
				}
				for len(stack) > 0 {
					c := stack[len(stack)-1]
					stack = stack[:len(stack)-1]
					for _, p := range c.Preds {
						if !li.body[s][p] {
							li.body[s][p] = true
							stack = append(stack, p)
						}
					}
				}
			}
		}
	}
	// ordinal by source position of the loop (position of the first instruction with a position in the header or body), falling back to block index
	sort.SliceStable(li.headers, func(i, j int) bool {
		pi, pj := loopPos(li, li.headers[i]), loopPos(li, li.headers[j])
		if pi != pj {
			return pi < pj
		}
		return li.headers[i].Index < li.headers[j].Index
	})
	for i, h := range li.headers {
		li.ordinal[h] = i + 1
	}
	// reverse post order ignoring back edges
	seen := map[*ssa.BasicBlock]bool{}
	var post []*ssa.BasicBlock
	var dfs func(b *ssa.BasicBlock)
	dfs = func(b *ssa.BasicBlock) {
		seen[b] = true
		for _, s := range b.Succs {
			if li.isBack[[2]int{b.Index, s.Index}] || seen[s] {
				continue
			}
			dfs(s)
		}
		post = append(post, b)
	}
	dfs(fn.Blocks[0])
	if fn.Recover != nil && !seen[fn.Recover] {
		// recover block: not modelled
	}
	for i := len(post) - 1; i >= 0; i-- {
		li.rpo = append(li.rpo, post[i])
	}
	// reducibility: after removing back edges the graph must be acyclic; DFS-based check on rpo index
	idx := map[*ssa.BasicBlock]int{}
	for i, b := range li.rpo {
		idx[b] = i
	}
	for _, b := range li.rpo {
		for _, s := range b.Succs {
			if li.isBack[[2]int{b.Index, s.Index}] {
				continue
			}
			if j, ok := idx[s]; ok && j <= idx[b] {
				li.irreducible = true
			}
		}
	}
	return li
}

// loopPos: smallest source position among the instructions of the loop (its header and body).
func loopPos(li *loopInfo, h *ssa.BasicBlock) token.Pos {
	var best token.Pos
	for b := range li.body[h] {
		for _, in := range b.Instrs {
			if p := in.Pos(); p.IsValid() && (best == 0 || p < best) {
				best = p
			}
		}
	}
	return best
}
