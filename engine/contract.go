package main

import (
	"bufio"
	"fmt"
	"os"
	"path/filepath"
	"regexp"
	"sort"
	"strconv"
	"strings"
)

type Clause struct {
	Assumed bool // an ensures clause that call sites may use but the body is not checked against (listed in evidence)
	Src   string
	Expr  *Expr
	Props []string
	Line  int
	File  string
	Label string
}

type LoopSpec struct {
	Assumed    []Clause // assumed at the loop head, never asserted: an explicit, listed assumption
	Invariants []Clause
	Decreases  *Clause
}

type AtAssert struct {
	Where  string // "call" or "return"
	Target string // callee name for call
	Nth    int    // 0 = every, k = k-th
	Clause Clause
}

type GhostVar struct {
	Name string
	Type *TypeExpr
}

type AfterSet struct {
	Nth    int
	Target string
	Name   string
	Clause Clause
}

type FuncContract struct {
	Ghosts   []GhostVar
	Afters   []AfterSet
	Pkg      string
	Name     string // Recv.Name or Name
	Props    []string
	Requires []Clause
	Ensures  []Clause
	Loops    map[int]*LoopSpec
	Safe     bool
	SafeKinds []string // empty = every implicit panic; otherwise only these kinds (type-assert, index, nil-deref, ...)
	Pure     bool
	Trusted  bool // contract is assumed at call sites, body not verified (listed in evidence)
	AssumeRequires bool // callers assume the preconditions instead of proving them (listed in evidence)
	Options  map[string]bool // engine options for this function (e.g. elemlinks)
	AssumeCallee []string // callees whose preconditions this function assumes at its own call sites (listed in evidence)
	Asserts  []AtAssert
	File     string
	Line     int
	ResultNames []string
}

func (fc *FuncContract) Key() string { return fc.Pkg + "." + fc.Name }

type SpecFunc struct {
	Pkg    string
	Name   string
	Params []Binder
	Result *TypeExpr
	Body   *Expr // nil = uninterpreted
	Src    string
	File   string
	Line   int
}

type Axiom struct {
	Pkg, Name string
	Clause    Clause
}

type LemmaStmt struct {
	Kind   string // var, requires, let, assert, call
	Names  []string
	Type   *TypeExpr
	Clause Clause
}

type Lemma struct {
	Pkg, Name string
	Props     []string
	Stmts     []LemmaStmt
	File      string
	Line      int
}

func (l *Lemma) Key() string { return l.Pkg + ".lemma:" + l.Name }

type StructuralClause struct {
	Pkg   string
	Text  string
	Props []string
	File  string
	Line  int
}

type ContractSet struct {
	byKey  map[string]*FuncContract
	funcs  []*FuncContract
	specs  map[string]*SpecFunc // pkg.name
	axioms []*Axiom
	lemmas []*Lemma
	files  []string
	binds  map[string]string // external function (ssa name) -> pkg.specfunc
	structurals []StructuralClause
	errors []string
	assumeCount int
}

var clauseKeywords = map[string]bool{"option": true, "assumed": true, "ghost": true, "after": true, "requires": true, "ensures": true, "loop": true, "safe": true, "pure": true, "trusted": true, "at": true, "var": true, "let": true, "assert": true, "results": true}
var topKeywords = map[string]bool{"func": true, "spec": true, "axiom": true, "lemma": true, "bind": true, "structural": true}

var propTagRe = regexp.MustCompile(`\[(C[0-9]+(?:\s*,\s*C[0-9]+)*)\]`)

func parseProps(s string) ([]string, string) {
	m := propTagRe.FindStringSubmatchIndex(s)
	if m == nil {
		return nil, s
	}
	var ps []string
	for _, p := range strings.Split(s[m[2]:m[3]], ",") {
		ps = append(ps, strings.TrimSpace(p))
	}
	return ps, strings.TrimSpace(s[:m[0]] + s[m[1]:])
}

func loadContracts(repo string) (*ContractSet, error) {
	cs := &ContractSet{byKey: map[string]*FuncContract{}, specs: map[string]*SpecFunc{}, binds: map[string]string{}}
	var files []string
	filepath.Walk(repo, func(path string, info os.FileInfo, err error) error {
		if err != nil {
			return nil
		}
		if info.IsDir() && (info.Name() == ".git" || info.Name() == "node_modules") {
			return filepath.SkipDir
		}
		if !info.IsDir() && info.Name() == "zz_contracts_verif.go" {
			files = append(files, path)
		}
		return nil
	})
	sort.Strings(files)
	for _, f := range files {
		if err := cs.parseFile(repo, f); err != nil {
			return cs, err
		}
	}
	cs.files = files
	return cs, nil
}

type rawLine struct {
	text string
	line int
}

func (cs *ContractSet) parseFile(repo, path string) error {
	fh, err := os.Open(path)
	if err != nil {
		return err
	}
	defer fh.Close()
	rel, _ := filepath.Rel(repo, path)
	sc := bufio.NewScanner(fh)
	sc.Buffer(make([]byte, 1<<20), 1<<20)
	pkg := ""
	var lines []rawLine
	ln := 0
	for sc.Scan() {
		ln++
		t := sc.Text()
		if strings.HasPrefix(t, "package ") {
			pkg = strings.TrimSpace(strings.TrimPrefix(t, "package "))
		}
		if !strings.HasPrefix(t, "//@") {
			continue
		}
		body := t[3:]
		// strip trailing comment
		if i := strings.Index(body, " // "); i >= 0 {
			body = body[:i]
		}
		if strings.TrimSpace(body) == "" {
			continue
		}
		lines = append(lines, rawLine{body, ln})
	}
	if pkg == "" {
		return fmt.Errorf("%s: no package clause", rel)
	}
	// group into logical lines: a new logical line starts with a keyword
	var logical []rawLine
	for _, l := range lines {
		w := firstWord(l.text)
		if topKeywords[w] || clauseKeywords[w] || len(logical) == 0 {
			logical = append(logical, rawLine{strings.TrimSpace(l.text), l.line})
		} else {
			logical[len(logical)-1].text += " " + strings.TrimSpace(l.text)
		}
	}
	var curF *FuncContract
	var curL *Lemma
	fail := func(l rawLine, format string, args ...any) error {
		return fmt.Errorf("%s:%d: %s", rel, l.line, fmt.Sprintf(format, args...))
	}
	mkClause := func(l rawLine, src string, defProps []string) (Clause, error) {
		props, rest := parseProps(src)
		e, err := parseExpr(rest)
		if err != nil {
			return Clause{}, fail(l, "%v", err)
		}
		if strings.Contains(rest, "assume(") {
			cs.assumeCount++
		}
		return Clause{Src: rest, Expr: e, Props: props, Line: l.line, File: rel}, nil
	}
	for _, l := range logical {
		w := firstWord(l.text)
		rest := strings.TrimSpace(strings.TrimPrefix(l.text, w))
		switch w {
		case "func":
			props, r := parseProps(rest)
			name := normFuncName(r)
			curF = &FuncContract{Pkg: pkg, Name: name, Props: props, Loops: map[int]*LoopSpec{}, File: rel, Line: l.line}
			curL = nil
			if _, dup := cs.byKey[curF.Key()]; dup {
				return fail(l, "duplicate contract for %s", curF.Key())
			}
			cs.byKey[curF.Key()] = curF
			cs.funcs = append(cs.funcs, curF)
		case "spec":
			curF, curL = nil, nil
			sf, err := parseSpecFunc(pkg, rest)
			if err != nil {
				return fail(l, "%v", err)
			}
			sf.File, sf.Line = rel, l.line
			cs.specs[pkg+"."+sf.Name] = sf
		case "structural":
			curF, curL = nil, nil
			props, r := parseProps(rest)
			cs.structurals = append(cs.structurals, StructuralClause{Pkg: pkg, Text: strings.TrimSpace(r), Props: props, File: rel, Line: l.line})
		case "bind":
			curF, curL = nil, nil
			i := strings.LastIndex(rest, "=")
			if i < 0 {
				return fail(l, "bind needs 'external function = spec function'")
			}
			cs.binds[strings.TrimSpace(rest[:i])] = pkg + "." + strings.TrimSpace(rest[i+1:])
		case "axiom":
			curF, curL = nil, nil
			i := strings.Index(rest, ":")
			if i < 0 {
				return fail(l, "axiom needs 'name: expr'")
			}
			c, err := mkClause(l, rest[i+1:], nil)
			if err != nil {
				return err
			}
			cs.axioms = append(cs.axioms, &Axiom{Pkg: pkg, Name: strings.TrimSpace(rest[:i]), Clause: c})
		case "lemma":
			props, r := parseProps(rest)
			curL = &Lemma{Pkg: pkg, Name: strings.TrimSuffix(strings.TrimSpace(r), ":"), Props: props, File: rel, Line: l.line}
			curF = nil
			cs.lemmas = append(cs.lemmas, curL)
		case "requires", "ensures", "assert", "let", "var":
			if curL != nil {
				st := LemmaStmt{Kind: w}
				switch w {
				case "var":
					// var a, b Type
					fs := strings.Fields(strings.ReplaceAll(rest, ",", " "))
					if len(fs) < 2 {
						return fail(l, "var needs names and a type")
					}
					toks, err := lexExpr(fs[len(fs)-1])
					if err != nil {
						return fail(l, "%v", err)
					}
					ps := &exprParser{toks: toks, src: rest}
					ty, err := ps.parseType()
					if err != nil {
						return fail(l, "%v", err)
					}
					st.Names, st.Type = fs[:len(fs)-1], ty
					st.Clause = Clause{Src: rest, Line: l.line, File: rel}
				case "let":
					i := strings.Index(rest, "=")
					if i < 0 {
						return fail(l, "let needs 'name = expr'")
					}
					names := strings.Split(rest[:i], ",")
					for _, n := range names {
						st.Names = append(st.Names, strings.TrimSpace(n))
					}
					c, err := mkClause(l, rest[i+1:], nil)
					if err != nil {
						return err
					}
					st.Clause = c
				default:
					c, err := mkClause(l, rest, nil)
					if err != nil {
						return err
					}
					st.Clause = c
				}
				curL.Stmts = append(curL.Stmts, st)
				continue
			}
			if curF == nil {
				return fail(l, "%s outside a func/lemma block", w)
			}
			c, err := mkClause(l, rest, nil)
			if err != nil {
				return err
			}
			switch w {
			case "requires":
				curF.Requires = append(curF.Requires, c)
			case "ensures":
				curF.Ensures = append(curF.Ensures, c)
			default:
				return fail(l, "%s not allowed in a func block", w)
			}
		case "results":
			if curF == nil {
				return fail(l, "results outside func")
			}
			for _, n := range strings.Split(rest, ",") {
				curF.ResultNames = append(curF.ResultNames, strings.TrimSpace(n))
			}
		case "loop":
			if curF == nil {
				return fail(l, "loop outside func")
			}
			fs := strings.Fields(rest)
			if len(fs) < 3 {
				return fail(l, "loop clause needs 'loop N invariant|decreases expr'")
			}
			n, err := strconv.Atoi(fs[0])
			if err != nil {
				return fail(l, "bad loop ordinal %q", fs[0])
			}
			src := strings.TrimSpace(strings.TrimPrefix(strings.TrimSpace(strings.TrimPrefix(rest, fs[0])), fs[1]))
			if fs[1] == "assumed" {
				if len(fs) < 4 || fs[2] != "invariant" {
					return fail(l, "syntax: loop N assumed invariant expr")
				}
				src = strings.TrimSpace(strings.TrimPrefix(src, "invariant"))
			}
			c, err := mkClause(l, src, nil)
			if err != nil {
				return err
			}
			if curF.Loops[n] == nil {
				curF.Loops[n] = &LoopSpec{}
			}
			switch fs[1] {
			case "assumed":
				cs.assumeCount++
				curF.Loops[n].Assumed = append(curF.Loops[n].Assumed, c)
			case "invariant":
				curF.Loops[n].Invariants = append(curF.Loops[n].Invariants, c)
			case "decreases":
				cc := c
				curF.Loops[n].Decreases = &cc
			default:
				return fail(l, "unknown loop clause %q", fs[1])
			}
		case "ghost":
			if curF == nil {
				return fail(l, "ghost outside func")
			}
			fs := strings.Fields(rest)
			if len(fs) != 2 {
				return fail(l, "ghost needs 'name Type'")
			}
			toks, err := lexExpr(fs[1])
			if err != nil {
				return fail(l, "%v", err)
			}
			ps := &exprParser{toks: toks, src: rest}
			ty, err := ps.parseType()
			if err != nil {
				return fail(l, "%v", err)
			}
			curF.Ghosts = append(curF.Ghosts, GhostVar{Name: fs[0], Type: ty})
		case "after":
			if curF == nil {
				return fail(l, "after outside func")
			}
			// after call TARGET set NAME = EXPR
			fs := strings.Fields(rest)
			i := strings.Index(rest, " set ")
			if len(fs) < 5 || fs[0] != "call" || i < 0 {
				return fail(l, "after clause needs 'after call TARGET set NAME = EXPR'")
			}
			asg := rest[i+len(" set "):]
			j := strings.Index(asg, "=")
			if j < 0 {
				return fail(l, "after clause needs an assignment")
			}
			c, err := mkClause(l, asg[j+1:], nil)
			if err != nil {
				return err
			}
			tgt, nth := fs[1], 0
			if k := strings.Index(tgt, "#"); k >= 0 {
				nth, err = strconv.Atoi(tgt[k+1:])
				if err != nil {
					return fail(l, "bad ordinal in %q", tgt)
				}
				tgt = tgt[:k]
			}
			curF.Afters = append(curF.Afters, AfterSet{Target: tgt, Nth: nth, Name: strings.TrimSpace(asg[:j]), Clause: c})
		case "safe":
			if curF == nil {
				return fail(l, "safe outside func")
			}
			curF.Safe = true
			for _, k := range strings.FieldsFunc(rest, func(r rune) bool { return r == ',' || r == ' ' }) {
				curF.SafeKinds = append(curF.SafeKinds, k)
			}
		case "pure":
			if curF == nil {
				return fail(l, "pure outside func")
			}
			curF.Pure = true
		case "option":
			if curF == nil {
				return fail(l, "option outside func")
			}
			if curF.Options == nil {
				curF.Options = map[string]bool{}
			}
			for _, o := range strings.Fields(rest) {
				if o != "elemlinks" && o != "split" && o != "split32" {
					return fail(l, "unknown option "+o)
				}
				curF.Options[o] = true
			}
		case "trusted":
			if curF == nil {
				return fail(l, "trusted outside func")
			}
			curF.Trusted = true
		case "assumed":
			// "assumed requires": the preconditions are assumed at call sites (a stated assumption about a dependency)
			if curF != nil && strings.HasPrefix(strings.TrimSpace(rest), "callee-requires ") {
				// the preconditions of the named callees are assumed (not proved) at this function's call sites
				for _, n := range strings.Split(strings.TrimPrefix(strings.TrimSpace(rest), "callee-requires "), ",") {
					if n = strings.TrimSpace(n); n != "" {
						curF.AssumeCallee = append(curF.AssumeCallee, n)
					}
				}
				break
			}
			if curF != nil && strings.HasPrefix(strings.TrimSpace(rest), "ensures ") {
				// "assumed ensures E": callers may rely on E, the body is not checked against it
				c, err := mkClause(l, strings.TrimPrefix(strings.TrimSpace(rest), "ensures "), nil)
				if err != nil {
					return err
				}
				c.Assumed = true
				cs.assumeCount++
				curF.Ensures = append(curF.Ensures, c)
				break
			}
			if curF == nil || strings.TrimSpace(rest) != "requires" {
				return fail(l, "syntax: assumed requires | assumed callee-requires F, G")
			}
			curF.AssumeRequires = true
		case "at":
			if curF == nil {
				return fail(l, "at outside func")
			}
			// at call NAME[#k] assert EXPR   |  at return[#k] assert EXPR
			i := strings.Index(rest, " assert ")
			if i < 0 {
				return fail(l, "at clause needs 'assert'")
			}
			head := strings.Fields(rest[:i])
			c, err := mkClause(l, rest[i+len(" assert "):], nil)
			if err != nil {
				return err
			}
			aa := AtAssert{Clause: c}
			if len(head) == 0 {
				return fail(l, "bad at clause")
			}
			spec := head[0]
			if (spec == "call" || spec == "store" || spec == "lookup") && len(head) >= 2 {
				aa.Where = spec
				spec = head[1]
			} else if strings.HasPrefix(spec, "return") {
				aa.Where = "return"
				spec = strings.TrimPrefix(spec, "return")
				if strings.HasPrefix(spec, "@") {
					// return@loopN: returns dominated by loop N's header; return@after-loopN: those not inside any loop
					aa.Target = spec[1:]
					spec = ""
				}
			} else {
				return fail(l, "bad at clause %q", rest[:i])
			}
			if j := strings.Index(spec, "#"); j >= 0 {
				k, err := strconv.Atoi(spec[j+1:])
				if err != nil {
					return fail(l, "bad ordinal in %q", spec)
				}
				aa.Nth = k
				spec = spec[:j]
			}
			if aa.Target == "" {
				aa.Target = spec
			}
			curF.Asserts = append(curF.Asserts, aa)
		default:
			return fail(l, "unknown clause %q", w)
		}
	}
	return nil
}

func firstWord(s string) string {
	s = strings.TrimSpace(s)
	for i, r := range s {
		if !((r >= 'a' && r <= 'z') || (r >= 'A' && r <= 'Z') || (r >= '0' && r <= '9') || r == '_') {
			return s[:i]
		}
	}
	return s
}

// normFuncName: "(T).M", "(*T).M", "T.M", "F" -> "T.M" / "F".
func normFuncName(s string) string {
	s = strings.TrimSpace(s)
	s = strings.ReplaceAll(s, "(*", "")
	s = strings.ReplaceAll(s, "(", "")
	s = strings.ReplaceAll(s, ")", "")
	s = strings.ReplaceAll(s, "*", "")
	return strings.TrimSpace(s)
}

// parseSpecFunc: "func name(a T, b U) R = expr" or without body.
func parseSpecFunc(pkg, rest string) (*SpecFunc, error) {
	rest = strings.TrimSpace(strings.TrimPrefix(strings.TrimSpace(rest), "func"))
	i := strings.Index(rest, "(")
	if i < 0 {
		return nil, fmt.Errorf("spec func needs a parameter list")
	}
	sf := &SpecFunc{Pkg: pkg, Name: strings.TrimSpace(rest[:i]), Src: rest}
	// find matching paren
	depth, j := 0, i
	for ; j < len(rest); j++ {
		if rest[j] == '(' {
			depth++
		} else if rest[j] == ')' {
			depth--
			if depth == 0 {
				break
			}
		}
	}
	if j >= len(rest) {
		return nil, fmt.Errorf("unbalanced parameter list")
	}
	params := rest[i+1 : j]
	after := strings.TrimSpace(rest[j+1:])
	var body string
	if k := strings.Index(after, "="); k >= 0 && !strings.HasPrefix(after[k:], "==") {
		body = strings.TrimSpace(after[k+1:])
		after = strings.TrimSpace(after[:k])
	}
	if params != "" {
		var pending []string
		for _, part := range strings.Split(params, ",") {
			fs := strings.Fields(part)
			switch len(fs) {
			case 1:
				pending = append(pending, fs[0])
			case 2:
				toks, err := lexExpr(fs[1])
				if err != nil {
					return nil, err
				}
				ps := &exprParser{toks: toks, src: fs[1]}
				ty, err := ps.parseType()
				if err != nil {
					return nil, err
				}
				for _, n := range append(pending, fs[0]) {
					sf.Params = append(sf.Params, Binder{n, ty})
				}
				pending = nil
			default:
				return nil, fmt.Errorf("bad parameter %q", part)
			}
		}
		if len(pending) > 0 {
			return nil, fmt.Errorf("parameters without a type: %v", pending)
		}
	}
	if after == "" {
		return nil, fmt.Errorf("spec func %s needs a result type", sf.Name)
	}
	toks, err := lexExpr(after)
	if err != nil {
		return nil, err
	}
	ps := &exprParser{toks: toks, src: after}
	sf.Result, err = ps.parseType()
	if err != nil {
		return nil, err
	}
	if body != "" {
		sf.Body, err = parseExpr(body)
		if err != nil {
			return nil, err
		}
	}
	return sf, nil
}
