package main

import (
	"fmt"
	"go/types"

	"golang.org/x/tools/go/ssa"
)

// verifyLemma builds the VC of a lemma: a ghost procedure
//   var a, b T        universally quantified values
//   requires P        assumption
//   let r = f(a, b)   r := result of the REAL function f (inlined, or its contract when it has one)
//   let x = e         pure specification expression
//   assert Q          obligation
func (p *Program) verifyLemma(l *Lemma) *VC {
	vc := newVC(l.Key(), p.ss)
	x := &Exec{vc: vc, prog: p, ss: p.ss, maxInline: 4}
	var pkg *types.Package
	if sp := p.byName[l.Pkg]; sp != nil {
		pkg = sp.Pkg
	}
	n := vc.newNode("lemma")
	st := newState()
	entry := newState()
	vars := map[string]Term{}
	// a pseudo frame so that calls can be executed
	fc := &FuncContract{Pkg: l.Pkg, Name: "lemma:" + l.Name, Props: l.Props, Loops: map[int]*LoopSpec{}}
	fr := &Frame{id: 0, vals: map[ssa.Value]Term{}, places: map[ssa.Value]*Place{}, tuples: map[ssa.Value][]Term{}, closures: map[ssa.Value]*closureInfo{},
		iterVar: map[ssa.Value]string{}, iterMap: map[ssa.Value]Term{}, callCount: map[string]int{}, contract: fc, depth: 1,
		loopHeadState: map[*ssa.BasicBlock]*State{}, loopVariant: map[*ssa.BasicBlock]string{}}
	x.top = nil
	env := func() *Env {
		return &Env{x: x, cur: st, old: entry, pkg: pkg, bound: map[string]Term{}, lookup: func(name string, cur bool) (Term, bool, error) {
			t, ok := vars[name]
			return t, ok, nil
		}}
	}
	x.assumeAxioms(n, pkg, st)
	fail := func(c Clause, err error) {
		p.contractErrors = append(p.contractErrors, contractErr{Fn: l.Key(), Clause: c.Src, Err: err.Error(), Props: l.Props, Line: c.Line, File: c.File})
	}
	nAssert := 0
	for _, s := range l.Stmts {
		switch s.Kind {
		case "var":
			t, err := p.resolveType(s.Type, pkg)
			if err != nil {
				fail(s.Clause, err)
				return vc
			}
			for _, name := range s.Names {
				v := x.fresh("lv_"+name, t)
				vars[name] = v
				x.assumeAllocated(n, st, v)
			}
		case "requires":
			f, err := x.trBool(s.Clause.Expr, env())
			if err != nil {
				fail(s.Clause, err)
				continue
			}
			n.assume(f)
		case "let":
			e := s.Clause.Expr
			if callee, recv, args, ok := p.resolveRealCall(e, vars, pkg); ok {
				var argT []Term
				bad := false
				if recv != nil {
					t, err := x.tr(recv, env())
					if err != nil {
						fail(s.Clause, err)
						bad = true
					}
					argT = append(argT, t)
				}
				for _, a := range args {
					t, err := x.tr(a, env())
					if err != nil {
						fail(s.Clause, err)
						bad = true
					}
					argT = append(argT, t)
				}
				if bad {
					continue
				}
				for i := range argT {
					if i < len(callee.Params) {
						argT[i] = x.coerceNil(argT[i], x.ss.sortOf(callee.Params[i].Type()))
						argT[i].T = callee.Params[i].Type()
					}
				}
				fr.fn = callee
				c := &callCtx{x: x, fr: fr, n: n, st: st, args: argT, resTypes: resultTypes(callee.Signature)}
				c.common = &ssa.CallCommon{Value: callee}
				if fcc := p.contractFor(callee); fcc != nil {
					x.applyContract(c, fcc, callee.Signature, callee.Params, calleeName(callee))
				} else {
					x.inlineCall(c, callee, nil)
				}
				n = c.n
				for i, name := range s.Names {
					if i < len(c.res) {
						vars[name] = c.res[i]
					}
				}
				continue
			}
			t, err := x.tr(e, env())
			if err != nil {
				fail(s.Clause, err)
				continue
			}
			if len(s.Names) != 1 {
				fail(s.Clause, fmt.Errorf("let with several names needs a function call"))
				continue
			}
			vars[s.Names[0]] = t
		case "assert":
			f, err := x.trBool(s.Clause.Expr, env())
			if err != nil {
				fail(s.Clause, err)
				continue
			}
			nAssert++
			ob := &Obligation{Name: fmt.Sprintf("%s#assert#%d", l.Key(), nAssert), Kind: "lemma", Fn: l.Key(), Props: l.Props, Clause: s.Clause.Src, Pos: fmt.Sprintf("%s:%d", s.Clause.File, s.Clause.Line)}
			vc.assert(n, f, ob)
		}
	}
	ob := &Obligation{Name: l.Key() + "#cover", Kind: "cover", Fn: l.Key(), Props: l.Props, Clause: "lemma hypotheses are satisfiable", Expect: "sat"}
	vc.assert(n, "true", ob)
	return vc
}

// resolveRealCall recognises f(args) / recv.m(args) where f/m is a real function of the program.
func (p *Program) resolveRealCall(e *Expr, vars map[string]Term, pkg *types.Package) (*ssa.Function, *Expr, []*Expr, bool) {
	for e.Op == "paren" {
		e = e.Args[0]
	}
	if e.Op != "call" {
		return nil, nil, nil, false
	}
	callee := e.Args[0]
	args := e.Args[1:]
	switch callee.Op {
	case "ident":
		if pkg == nil {
			return nil, nil, nil, false
		}
		if p.findSpec(callee.Name, pkg) != nil {
			return nil, nil, nil, false
		}
		if fn := p.funcByKey[pkg.Name()+"."+callee.Name]; fn != nil {
			return fn, nil, args, true
		}
	case "sel":
		// pkg.F(...)
		if id := callee.Args[0]; id.Op == "ident" {
			if _, isVar := vars[id.Name]; !isVar {
				if fn := p.funcByKey[id.Name+"."+callee.Name]; fn != nil {
					return fn, nil, args, true
				}
			}
		}
		// method call on a variable expression: need its static type; only variables and field paths are typed here
		if t := p.staticTypeOf(callee.Args[0], vars); t != nil {
			if n, ok := types.Unalias(deref(t)).(*types.Named); ok && n.Obj().Pkg() != nil {
				key := n.Obj().Pkg().Name() + "." + n.Obj().Name() + "." + callee.Name
				if fn := p.funcByKey[key]; fn != nil {
					return fn, callee.Args[0], args, true
				}
			}
		}
	}
	return nil, nil, nil, false
}

func (p *Program) staticTypeOf(e *Expr, vars map[string]Term) types.Type {
	switch e.Op {
	case "paren":
		return p.staticTypeOf(e.Args[0], vars)
	case "ident":
		if t, ok := vars[e.Name]; ok {
			return t.T
		}
	case "sel":
		bt := p.staticTypeOf(e.Args[0], vars)
		if bt == nil {
			return nil
		}
		if si := p.ss.structInfoOf(deref(bt)); si != nil {
			for _, f := range si.fields {
				if f.name == e.Name {
					return f.typ
				}
			}
		}
	}
	return nil
}
