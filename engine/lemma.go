package main

// verifyLemma builds the VC of a lemma (ghost procedure over real functions). Filled in later.
func (p *Program) verifyLemma(l *Lemma) *VC {
	vc := newVC(l.Key(), p.ss)
	return vc
}
