package main

import (
	"fmt"
	"go/token"
	"go/types"
	"os"
	"path/filepath"
	"sort"
	"strings"

	"golang.org/x/tools/go/packages"
	"golang.org/x/tools/go/ssa"
	"golang.org/x/tools/go/ssa/ssautil"
)

const pintPath = "github.com/cloudflare/pint"

type contractErr struct {
	Fn, Clause, Err string
	Props           []string
	Line            int
	File            string
}

type Program struct {
	repo     string
	fset     *token.FileSet
	pkgs     []*packages.Package
	prog     *ssa.Program
	ssaPkgs  map[string]*ssa.Package // by import path
	byName   map[string]*ssa.Package // by package name (pint packages)
	ss       *Sorts
	heapSorts map[string]string
	heapElemType map[string]types.Type
	contracts *ContractSet
	contractErrors []contractErr
	allFuncs  []*ssa.Function // all pint functions incl. anonymous and methods
	funcByKey map[string]*ssa.Function
	modCache  map[*ssa.Function][]string
	isolated  map[*ssa.Function]bool
	gwrites   map[string]bool
	aliases   map[string]map[string]string // package path -> import alias -> import path
	freshCache map[*ssa.Function][]string
	directCache map[*ssa.Function]*directInfo
	externals map[string]int
	loadErrors []string
	addrTaken map[*ssa.Function]bool
}

func loadProgram(repo string, patterns []string, overlay map[string][]byte) (*Program, error) {
	cfg := &packages.Config{
		Mode:       packages.LoadSyntax,
		Dir:        repo,
		BuildFlags: []string{"-tags=verif", "-mod=mod"},
		Env:        append(os.Environ(), "GOFLAGS=-mod=mod", "GOPROXY=off"),
		Overlay:    overlay,
	}
	pkgs, err := packages.Load(cfg, patterns...)
	if err != nil {
		return nil, err
	}
	p := &Program{repo: repo, pkgs: pkgs, ssaPkgs: map[string]*ssa.Package{}, byName: map[string]*ssa.Package{}, ss: newSorts(), heapSorts: map[string]string{}, heapElemType: map[string]types.Type{},
		funcByKey: map[string]*ssa.Function{}, modCache: map[*ssa.Function][]string{}, isolated: map[*ssa.Function]bool{}, freshCache: map[*ssa.Function][]string{}, directCache: map[*ssa.Function]*directInfo{}, externals: map[string]int{}, addrTaken: map[*ssa.Function]bool{}}
	p.aliases = map[string]map[string]string{}
	packages.Visit(pkgs, nil, func(pk *packages.Package) {
		if strings.HasPrefix(pk.PkgPath, pintPath) {
			for _, f := range pk.Syntax {
				for _, im := range f.Imports {
					if im.Name != nil && im.Name.Name != "_" && im.Name.Name != "." {
						if p.aliases[pk.PkgPath] == nil {
							p.aliases[pk.PkgPath] = map[string]string{}
						}
						p.aliases[pk.PkgPath][im.Name.Name] = strings.Trim(im.Path.Value, "\"")
					}
				}
			}
			for _, e := range pk.Errors {
				p.loadErrors = append(p.loadErrors, e.Error())
			}
		}
	})
	if len(p.loadErrors) > 0 {
		return p, fmt.Errorf("package errors: %s", strings.Join(p.loadErrors, "; "))
	}
	prog, spkgs := ssautil.AllPackages(pkgs, ssa.NaiveForm|ssa.GlobalDebug|ssa.InstantiateGenerics)
	p.prog = prog
	p.fset = prog.Fset
	_ = spkgs
	prog.Build()
	for _, sp := range prog.AllPackages() {
		p.ssaPkgs[sp.Pkg.Path()] = sp
		if strings.HasPrefix(sp.Pkg.Path(), pintPath) {
			p.byName[sp.Pkg.Name()] = sp
		}
	}
	// enumerate pint functions
	for fn := range ssautil.AllFunctions(prog) {
		if p.isPint(fn) {
			p.allFuncs = append(p.allFuncs, fn)
		}
	}
	sort.Slice(p.allFuncs, func(i, j int) bool { return p.allFuncs[i].String() < p.allFuncs[j].String() })
	for _, fn := range p.allFuncs {
		p.funcByKey[funcKey(fn)] = fn
		for _, b := range fn.Blocks {
			for _, in := range b.Instrs {
				if _, isDbg := in.(*ssa.DebugRef); isDbg {
					continue
				}
				for _, op := range in.Operands(nil) {
					if op == nil || *op == nil {
						continue
					}
					if f, ok := (*op).(*ssa.Function); ok {
						if call, ok := in.(ssa.CallInstruction); ok && call.Common().Value == f {
							continue
						}
						p.addrTaken[f] = true
					}
				}
				if mc, ok := in.(*ssa.MakeClosure); ok {
					p.addrTaken[mc.Fn.(*ssa.Function)] = true
				}
			}
		}
	}
	return p, nil
}

func (p *Program) isPint(fn *ssa.Function) bool {
	if fn == nil {
		return false
	}
	pk := fn.Pkg
	if pk == nil {
		if o := fn.Origin(); o != nil {
			pk = o.Pkg
		}
	}
	if pk == nil && fn.Parent() != nil {
		return p.isPint(fn.Parent())
	}
	if pk == nil {
		// synthetic wrappers: look at the receiver's package
		if fn.Signature.Recv() != nil {
			if n, ok := deref(fn.Signature.Recv().Type()).(*types.Named); ok && n.Obj().Pkg() != nil {
				return strings.HasPrefix(n.Obj().Pkg().Path(), pintPath)
			}
		}
		return false
	}
	return strings.HasPrefix(pk.Pkg.Path(), pintPath)
}

// funcKey: "pkgname.Func", "pkgname.Recv.Method" (pointer receivers without '*'), anonymous: parent$N.
func funcKey(fn *ssa.Function) string {
	if fn.Parent() != nil {
		name := fn.Name() // e.g. SortReports$2
		return funcKeyPkg(fn.Parent()) + "." + recvPrefix(fn.Parent()) + name
	}
	return funcKeyPkg(fn) + "." + recvPrefix(fn) + fn.Name()
}

func funcKeyPkg(fn *ssa.Function) string {
	for fn.Parent() != nil {
		fn = fn.Parent()
	}
	if fn.Pkg != nil {
		return fn.Pkg.Pkg.Name()
	}
	if o := fn.Origin(); o != nil && o.Pkg != nil {
		return o.Pkg.Pkg.Name()
	}
	if fn.Signature.Recv() != nil {
		if n, ok := deref(fn.Signature.Recv().Type()).(*types.Named); ok && n.Obj().Pkg() != nil {
			return n.Obj().Pkg().Name()
		}
	}
	return "?"
}

func recvPrefix(fn *ssa.Function) string {
	for fn.Parent() != nil {
		fn = fn.Parent()
	}
	if r := fn.Signature.Recv(); r != nil {
		if n, ok := types.Unalias(deref(r.Type())).(*types.Named); ok {
			return n.Obj().Name() + "."
		}
	}
	return ""
}

func (p *Program) pos(pos token.Pos) string {
	if !pos.IsValid() {
		return ""
	}
	ps := p.fset.Position(pos)
	rel, err := filepath.Rel(p.repo, ps.Filename)
	if err != nil {
		rel = ps.Filename
	}
	return fmt.Sprintf("%s:%d", rel, ps.Line)
}

func (p *Program) noteExternal(name string) { p.externals[name]++ }

func (p *Program) contractFor(fn *ssa.Function) *FuncContract {
	if p.contracts == nil {
		return nil
	}
	if o := fn.Origin(); o != nil {
		fn = o
	}
	return p.contracts.byKey[funcKey(fn)]
}

func (p *Program) contractForInvoke(recv types.Type, method string) *FuncContract {
	if p.contracts == nil {
		return nil
	}
	n, ok := types.Unalias(recv).(*types.Named)
	if !ok || n.Obj().Pkg() == nil {
		return nil
	}
	return p.contracts.byKey[n.Obj().Pkg().Name()+"."+n.Obj().Name()+"."+method]
}

// implementations: pint methods that may be the target of an interface call (class hierarchy analysis).
func (p *Program) implementations(recv types.Type, method string) []*ssa.Function {
	iface, ok := types.Unalias(recv).Underlying().(*types.Interface)
	if !ok {
		return nil
	}
	var out []*ssa.Function
	seen := map[*ssa.Function]bool{}
	for _, sp := range p.byName {
		for _, mem := range sp.Members {
			tn, ok := mem.(*ssa.Type)
			if !ok {
				continue
			}
			for _, t := range []types.Type{tn.Type(), types.NewPointer(tn.Type())} {
				if types.IsInterface(t) {
					continue
				}
				if types.Implements(t, iface) {
					ms := p.prog.MethodSets.MethodSet(t)
					if sel := ms.Lookup(tn.Object().Pkg(), method); sel != nil {
						if f := p.prog.MethodValue(sel); f != nil && !seen[f] {
							seen[f] = true
							out = append(out, f)
						}
					}
				}
			}
		}
	}
	sort.Slice(out, func(i, j int) bool { return out[i].String() < out[j].String() })
	return out
}
