package main

import (
	"sort"
	"fmt"
	"go/constant"
	"os"
	"go/types"
	"strings"

	"golang.org/x/tools/go/ssa"
)

// Env is the context in which a contract expression is translated to SMT.
type Env struct {
	x      *Exec
	cur    *State
	old    *State
	lookup func(name string, cur bool) (Term, bool, error) // program names; cur=false inside old()
	bound  map[string]Term
	pkg    *types.Package
	depth  int
	inOld  bool
	quants []*patCollector
	assumeSide bool // the formula being translated will be assumed, not proved: derived frame facts may be added
}

// patCollector gathers candidate trigger terms for one quantifier: element accesses whose index is a bound variable.
type patCollector struct {
	vars  map[string]bool // SMT names of the bound variables
	terms map[string][]string // bound var -> terms indexed by it
}

func (e *Env) recordPattern(idx string, term string) {
	for _, q := range e.quants {
		if q.vars[idx] {
			dup := false
			for _, t := range q.terms[idx] {
				if t == term {
					dup = true
				}
			}
			if !dup {
				q.terms[idx] = append(q.terms[idx], term)
			}
		}
	}
}

// elemAt is the specification-level element access s[i]; it is an uninterpreted function (so that it can serve
// as a trigger) defined by an axiom as the heap lookup.
func (x *Exec) elemAt(heapName string, heap string, s string, idx string, elemSort string) string {
	f := "uf_at_" + mangle(elemSort)
	hs := x.varSort(heapName)
	if _, ok := x.vc.funs[f]; !ok {
		x.vc.declFun(f, []string{hs, SSlice, SInt}, elemSort)
		x.vc.axiom(fmt.Sprintf("(forall ((h %s) (s Slice) (i Int)) (! (= (%s h s i) (select (select h (s.arr s)) (+ (s.off s) i))) :pattern ((%s h s i))))", hs, f, f))
	}
	return app(f, heap, s, idx)
}

// inSlice is the specification-level membership test contains(s, v) of a slice in a given version of its element
// heap: an uninterpreted predicate tied to the element access by two axioms (every element is contained; whatever
// is contained sits at the witness index). Keyed by the value, so chains of membership facts close under congruence.
func (x *Exec) inSlice(heapName string, heap string, s string, v string, elemSort string, axioms bool) string {
	f := "uf_in_" + mangle(elemSort)
	w := "uf_inwit_" + mangle(elemSort)
	hs := x.varSort(heapName)
	x.vc.declFun(f, []string{hs, SSlice, elemSort}, SBool)
	if axioms {
		x.vc.declFun(w, []string{hs, SSlice, elemSort}, SInt)
		at := x.elemAt(heapName, "h", "s", "i", elemSort)
		// introduction only for membership questions that are already being asked (multi-pattern): stating it for every
		// element access would create a fresh question per access and, with the witness below, a matching loop
		x.vc.axiom(fmt.Sprintf("(forall ((h %s) (s Slice) (i Int) (v %s)) (! (=> (and (<= 0 i) (< i (s.len s)) (= %s v)) (%s h s v)) :pattern (%s (%s h s v))))", hs, elemSort, at, f, at, f))
		wit := app(w, "h", "s", "v")
		x.vc.axiom(fmt.Sprintf("(forall ((h %s) (s Slice) (v %s)) (! (=> (%s h s v) (and (<= 0 %s) (< %s (s.len s)) (= %s v))) :pattern ((%s h s v))))",
			hs, elemSort, f, wit, wit, x.elemAt(heapName, "h", "s", wit, elemSort), f))
	}
	return app(f, heap, s, v)
}

// sliceFrame: if the array of a slice is the same in two versions of an element heap then so are its elements and its
// membership facts. cond is the condition on (s.arr s) under which the array is known to be unchanged.
func (x *Exec) sliceFrame(heapName, h0, h1, cond string) string {
	hs := x.varSort(heapName)
	es := hs[len("(Array Int (Array Int ") : len(hs)-2]
	a1, a0 := x.elemAt(heapName, h1, "s", "i", es), x.elemAt(heapName, h0, "s", "i", es)
	out := fmt.Sprintf("(forall ((s Slice) (i Int)) (! (=> %s (= %s %s)) :pattern (%s) :pattern (%s)))", cond, a1, a0, a1, a0)
	if _, ok := x.vc.funs["uf_in_"+mangle(es)]; ok {
		i1, i0 := x.inSlice(heapName, h1, "s", "v", es, false), x.inSlice(heapName, h0, "s", "v", es, false)
		out = mkAnd(out, fmt.Sprintf("(forall ((s Slice) (v %s)) (! (=> %s (= %s %s)) :pattern (%s) :pattern (%s)))", es, cond, i1, i0, i1, i0))
	}
	return out
}

func (e *Env) withBound(name string, t Term) *Env {
	n := *e
	n.bound = map[string]Term{}
	for k, v := range e.bound {
		n.bound[k] = v
	}
	n.bound[name] = t
	return &n
}

func (e *Env) state() *State {
	if e.inOld {
		return e.old
	}
	return e.cur
}

var nilTerm = Term{S: "nil", Sort: "nil"}

func (x *Exec) trBool(e *Expr, env *Env) (string, error) {
	t, err := x.tr(e, env)
	if err != nil {
		return "", err
	}
	if t.Sort != SBool {
		return "", fmt.Errorf("expected a boolean expression, got sort %s", t.Sort)
	}
	return t.S, nil
}

func (p *Program) resolveType(te *TypeExpr, pkg *types.Package) (types.Type, error) {
	switch te.Kind {
	case "ptr":
		t, err := p.resolveType(te.Elem, pkg)
		if err != nil {
			return nil, err
		}
		return types.NewPointer(t), nil
	case "slice":
		t, err := p.resolveType(te.Elem, pkg)
		if err != nil {
			return nil, err
		}
		return types.NewSlice(t), nil
	case "map":
		k, err := p.resolveType(te.Key, pkg)
		if err != nil {
			return nil, err
		}
		v, err := p.resolveType(te.Elem, pkg)
		if err != nil {
			return nil, err
		}
		return types.NewMap(k, v), nil
	}
	if te.Pkg == "" {
		if o := types.Universe.Lookup(te.Name); o != nil {
			if tn, ok := o.(*types.TypeName); ok {
				return tn.Type(), nil
			}
		}
		if pkg != nil {
			if o := pkg.Scope().Lookup(te.Name); o != nil {
				if tn, ok := o.(*types.TypeName); ok {
					return tn.Type(), nil
				}
			}
		}
		return nil, fmt.Errorf("unknown type %s", te.Name)
	}
	tp := p.findPackage(te.Pkg, pkg)
	if tp == nil {
		return nil, fmt.Errorf("unknown package %s", te.Pkg)
	}
	if o := tp.Scope().Lookup(te.Name); o != nil {
		if tn, ok := o.(*types.TypeName); ok {
			return tn.Type(), nil
		}
	}
	return nil, fmt.Errorf("unknown type %s.%s", te.Pkg, te.Name)
}

// findPackage resolves a package name as seen from pkg: its imports first, then pint packages, then anything loaded.
func (p *Program) findPackage(name string, from *types.Package) *types.Package {
	if from != nil {
		if from.Name() == name {
			return from
		}
		if path, ok := p.aliases[from.Path()][name]; ok {
			for _, im := range from.Imports() {
				if im.Path() == path {
					return im
				}
			}
		}
		for _, im := range from.Imports() {
			if im.Name() == name {
				return im
			}
		}
	}
	if sp, ok := p.byName[name]; ok {
		return sp.Pkg
	}
	var best *types.Package
	for path, sp := range p.ssaPkgs {
		if sp.Pkg.Name() == name {
			if best == nil || len(path) < len(best.Path()) {
				best = sp.Pkg
			}
		}
	}
	return best
}

func (x *Exec) constObjTerm(c *types.Const) (Term, error) {
	t := c.Type()
	s := x.ss.sortOf(t)
	v := c.Val()
	switch s {
	case SBool:
		if constant.BoolVal(v) {
			return Term{S: "true", Sort: SBool, T: t}, nil
		}
		return Term{S: "false", Sort: SBool, T: t}, nil
	case SInt:
		if i, ok := constant.Int64Val(constant.ToInt(v)); ok {
			return Term{S: intLit(i), Sort: SInt, T: t}, nil
		}
		return Term{S: v.ExactString(), Sort: SInt, T: t}, nil
	case SStr:
		return Term{S: x.ss.strLit(constant.StringVal(v)), Sort: SStr, T: t}, nil
	case SReal:
		f, _ := constant.Float64Val(v)
		return Term{S: realLit(f), Sort: SReal, T: t}, nil
	}
	return Term{}, fmt.Errorf("constant %s of unsupported type", c.Name())
}

func (x *Exec) tr(e *Expr, env *Env) (Term, error) {
	switch e.Op {
	case "paren":
		return x.tr(e.Args[0], env)
	case "int", "char":
		return Term{S: e.Name, Sort: SInt, T: types.Typ[types.UntypedInt]}, nil
	case "float":
		return Term{S: e.Name, Sort: SReal, T: types.Typ[types.UntypedFloat]}, nil
	case "str":
		return Term{S: x.ss.strLit(e.Name), Sort: SStr, T: types.Typ[types.String]}, nil
	case "ident":
		return x.trIdent(e, env)
	case "sel":
		return x.trSel(e, env)
	case "index":
		return x.trIndex(e, env)
	case "slice":
		return x.trSliceExpr(e, env)
	case "call":
		return x.trCall(e, env)
	case "unary":
		a, err := x.tr(e.Args[0], env)
		if err != nil {
			return Term{}, err
		}
		if e.Name == "!" {
			if a.Sort != SBool {
				return Term{}, fmt.Errorf("! applied to %s", a.Sort)
			}
			return tBool(mkNot(a.S)), nil
		}
		if e.Name == "*" {
			if a.T == nil {
				return Term{}, fmt.Errorf("dereference of an untyped value")
			}
			if _, ok := types.Unalias(a.T).Underlying().(*types.Pointer); !ok {
				return Term{}, fmt.Errorf("dereference of a non-pointer")
			}
			p := x.ptrPlaceT(nil, nil, a, 0)
			return x.loadPlace(nil, env.state(), p), nil
		}
		return Term{S: app("-", a.S), Sort: a.Sort, T: a.T}, nil
	case "binary":
		return x.trBinary(e, env)
	case "cond":
		c, err := x.trBool(e.Args[0], env)
		if err != nil {
			return Term{}, err
		}
		a, err := x.tr(e.Args[1], env)
		if err != nil {
			return Term{}, err
		}
		b, err := x.tr(e.Args[2], env)
		if err != nil {
			return Term{}, err
		}
		a, b = x.unifyNil(a, b)
		if a.Sort != b.Sort {
			return Term{}, fmt.Errorf("conditional branches have sorts %s and %s", a.Sort, b.Sort)
		}
		return Term{S: mkIte(c, a.S, b.S), Sort: a.Sort, T: a.T}, nil
	case "forall", "exists":
		return x.trQuant(e, env)
	case "complit":
		t, err := x.prog.resolveType(e.Type, env.pkg)
		if err != nil {
			return Term{}, err
		}
		si := x.ss.structInfoOf(t)
		if si == nil {
			return Term{}, fmt.Errorf("composite literal of non-struct type %s", e.Type)
		}
		args := make([]string, len(si.fields))
		for i, f := range si.fields {
			args[i] = x.ss.zeroOfSort(f.sort, f.typ)
		}
		for i, k := range e.Keys {
			found := false
			for j, f := range si.fields {
				if f.name == k {
					v, err := x.tr(e.Args[i], env)
					if err != nil {
						return Term{}, err
					}
					v = x.coerceNil(v, f.sort)
					if v.Sort != f.sort {
						return Term{}, fmt.Errorf("field %s has sort %s, value has %s", k, f.sort, v.Sort)
					}
					args[j] = v.S
					found = true
				}
			}
			if !found {
				return Term{}, fmt.Errorf("type %s has no field %s", e.Type, k)
			}
		}
		s := "mk_" + si.name
		if len(args) > 0 {
			s = app(s, args...)
		}
		return Term{S: s, Sort: si.name, T: t}, nil
	}
	return Term{}, fmt.Errorf("unsupported expression form %s", e.Op)
}

func (x *Exec) coerceNil(v Term, sort string) Term {
	if v.Sort != "nil" {
		return v
	}
	switch sort {
	case SInt:
		return Term{S: "0", Sort: SInt}
	case SSlice:
		return Term{S: "nilslice", Sort: SSlice}
	case SIface:
		return Term{S: "niliface", Sort: SIface}
	}
	return v
}

func (x *Exec) unifyNil(a, b Term) (Term, Term) {
	if a.Sort == "nil" && b.Sort != "nil" {
		a = x.coerceNil(a, b.Sort)
		a.T = b.T
	}
	if b.Sort == "nil" && a.Sort != "nil" {
		b = x.coerceNil(b, a.Sort)
		b.T = a.T
	}
	return a, b
}

func (x *Exec) trIdent(e *Expr, env *Env) (Term, error) {
	if t, ok := env.bound[e.Name]; ok {
		return t, nil
	}
	switch e.Name {
	case "true":
		return tTrue(), nil
	case "false":
		return tFalse(), nil
	case "nil":
		return nilTerm, nil
	}
	if env.lookup != nil {
		t, ok, err := env.lookup(e.Name, !env.inOld)
		if err != nil {
			return Term{}, err
		}
		if ok {
			return t, nil
		}
	}
	if env.pkg != nil {
		if o := env.pkg.Scope().Lookup(e.Name); o != nil {
			return x.objTerm(o, env)
		}
	}
	// zero-argument spec function used as a constant
	if sf := x.prog.findSpec(e.Name, env.pkg); sf != nil && len(sf.Params) == 0 {
		return x.applySpec(sf, nil, env)
	}
	return Term{}, fmt.Errorf("unknown name %q", e.Name)
}

func (x *Exec) objTerm(o types.Object, env *Env) (Term, error) {
	switch o := o.(type) {
	case *types.Const:
		return x.constObjTerm(o)
	case *types.Var:
		// package-level variable
		if sp := x.prog.ssaPkgs[o.Pkg().Path()]; sp != nil {
			if g := sp.Var(o.Name()); g != nil {
				name := x.globalVar(g)
				t := x.get(env.state(), name)
				t.T = o.Type()
				return t, nil
			}
		}
	}
	return Term{}, fmt.Errorf("name %s is not a constant or variable", o.Name())
}

func (x *Exec) trSel(e *Expr, env *Env) (Term, error) {
	// qualified identifier pkg.Name
	if id := e.Args[0]; id.Op == "ident" {
		if _, isBound := env.bound[id.Name]; !isBound {
			isProgName := false
			if env.lookup != nil {
				if _, ok, _ := env.lookup(id.Name, true); ok {
					isProgName = true
				}
			}
			if !isProgName && (env.pkg == nil || env.pkg.Scope().Lookup(id.Name) == nil) {
				if tp := x.prog.findPackage(id.Name, env.pkg); tp != nil {
					if o := tp.Scope().Lookup(e.Name); o != nil {
						return x.objTerm(o, env)
					}
					if sf := x.prog.contracts.specs[tp.Name()+"."+e.Name]; sf != nil && len(sf.Params) == 0 {
						return x.applySpec(sf, nil, env)
					}
					return Term{}, fmt.Errorf("package %s has no member %s", id.Name, e.Name)
				}
			}
		}
	}
	xv, err := x.tr(e.Args[0], env)
	if err != nil {
		return Term{}, err
	}
	return x.selectField(xv, e.Name, env)
}

func (x *Exec) selectField(xv Term, field string, env *Env) (Term, error) {
	if xv.T == nil {
		return Term{}, fmt.Errorf("cannot select .%s from an untyped value", field)
	}
	t := types.Unalias(xv.T)
	if p, ok := t.Underlying().(*types.Pointer); ok {
		st := p.Elem()
		si := x.ss.structInfoOf(st)
		if si == nil {
			return Term{}, fmt.Errorf("pointer to non-struct has no field %s", field)
		}
		if i, path := findField(si, field, x.ss); i >= 0 {
			h, _ := x.heapField(st, i)
			cur := Term{S: app("select", x.get(env.state(), h).S, xv.S), Sort: si.fields[i].sort, T: si.fields[i].typ}
			if len(path) > 0 {
				return x.selectField(cur, path[0], env)
			}
			return cur, nil
		}
		return Term{}, fmt.Errorf("type %s has no field %s", typeKeyShort(st), field)
	}
	si := x.ss.structInfoOf(t)
	if si == nil || isTimeTime(t) {
		return Term{}, fmt.Errorf("type %s has no field %s", typeKeyShort(t), field)
	}
	if i, path := findField(si, field, x.ss); i >= 0 {
		cur := Term{S: app(si.fields[i].acc, xv.S), Sort: si.fields[i].sort, T: si.fields[i].typ}
		if len(path) > 0 {
			return x.selectField(cur, path[0], env)
		}
		return cur, nil
	}
	return Term{}, fmt.Errorf("type %s has no field %s", typeKeyShort(t), field)
}

// findField returns the index of the field; for promoted fields of embedded structs, the embedded field index and the remaining path.
func findField(si *structInfo, name string, ss *Sorts) (int, []string) {
	for i, f := range si.fields {
		if f.name == name {
			return i, nil
		}
	}
	for i := 0; i < si.st.NumFields(); i++ {
		f := si.st.Field(i)
		if !f.Embedded() {
			continue
		}
		if inner := ss.structInfoOf(deref(f.Type())); inner != nil {
			if j, _ := findField(inner, name, ss); j >= 0 {
				return i, []string{name}
			}
		}
	}
	return -1, nil
}

func (x *Exec) trIndex(e *Expr, env *Env) (Term, error) {
	xv, err := x.tr(e.Args[0], env)
	if err != nil {
		return Term{}, err
	}
	idx, err := x.tr(e.Args[1], env)
	if err != nil {
		return Term{}, err
	}
	if xv.T == nil {
		return Term{}, fmt.Errorf("indexing an untyped value")
	}
	switch u := types.Unalias(xv.T).Underlying().(type) {
	case *types.Slice:
		h := x.heapElem(u.Elem())
		es := x.ss.sortOf(u.Elem())
		t := x.elemAt(h, x.get(env.state(), h).S, xv.S, idx.S, es)
		env.recordPattern(idx.S, t)
		return Term{S: t, Sort: es, T: u.Elem()}, nil
	case *types.Array:
		return Term{S: app("select", xv.S, idx.S), Sort: x.ss.sortOf(u.Elem()), T: u.Elem()}, nil
	case *types.Basic:
		return Term{S: app("u_sat", xv.S, idx.S), Sort: SInt, T: types.Typ[types.Byte]}, nil
	case *types.Map:
		d, vv := x.heapMap(u)
		st := env.state()
		domSel := app("select", app("select", x.get(st, d).S, xv.S), idx.S)
		valSel := app("select", app("select", x.get(st, vv).S, xv.S), idx.S)
		env.recordPattern(idx.S, domSel)
		env.recordPattern(idx.S, valSel)
		has := mkAnd(mkNot(app("=", xv.S, "0")), domSel)
		return Term{S: mkIte(has, valSel, x.ss.zero(u.Elem()).S), Sort: x.ss.sortOf(u.Elem()), T: u.Elem()}, nil
	}
	return Term{}, fmt.Errorf("cannot index %s", typeKeyShort(xv.T))
}

func (x *Exec) trSliceExpr(e *Expr, env *Env) (Term, error) {
	xv, err := x.tr(e.Args[0], env)
	if err != nil {
		return Term{}, err
	}
	lo, hi := "0", ""
	if e.Args[1] != nil {
		t, err := x.tr(e.Args[1], env)
		if err != nil {
			return Term{}, err
		}
		lo = t.S
	}
	if e.Args[2] != nil {
		t, err := x.tr(e.Args[2], env)
		if err != nil {
			return Term{}, err
		}
		hi = t.S
	}
	switch xv.Sort {
	case SSlice:
		if hi == "" {
			hi = app("s.len", xv.S)
		}
		return Term{S: app("mk_Slice", app("s.arr", xv.S), plus(app("s.off", xv.S), lo), app("-", hi, lo), app("-", app("s.cap", xv.S), lo)), Sort: SSlice, T: xv.T}, nil
	case SStr:
		if hi == "" {
			hi = app("u_slen", xv.S)
		}
		t := app("u_ssub", xv.S, lo, hi)
		x.vc.axiom(mkImp(mkAnd(app("<=", "0", lo), app("<=", lo, hi), app("<=", hi, app("u_slen", xv.S))), mkEq(app("u_slen", t), app("-", hi, lo))))
		return Term{S: t, Sort: SStr, T: xv.T}, nil
	}
	return Term{}, fmt.Errorf("cannot slice sort %s", xv.Sort)
}

func (x *Exec) trBinary(e *Expr, env *Env) (Term, error) {
	op := e.Name
	switch op {
	case "&&", "||", "==>", "<==>":
		a, err := x.trBool(e.Args[0], env)
		if err != nil {
			return Term{}, err
		}
		b, err := x.trBool(e.Args[1], env)
		if err != nil {
			return Term{}, err
		}
		switch op {
		case "&&":
			return tBool(mkAnd(a, b)), nil
		case "||":
			return tBool(mkOr(a, b)), nil
		case "==>":
			return tBool(mkImp(a, b)), nil
		default:
			return tBool(mkEq(a, b)), nil
		}
	}
	a, err := x.tr(e.Args[0], env)
	if err != nil {
		return Term{}, err
	}
	b, err := x.tr(e.Args[1], env)
	if err != nil {
		return Term{}, err
	}
	if op == "==" || op == "!=" {
		var f string
		switch {
		case a.Sort == "nil" && b.Sort == "nil":
			f = "true"
		case a.Sort == "nil" || b.Sort == "nil":
			o := a
			if a.Sort == "nil" {
				o = b
			}
			switch o.Sort {
			case SInt:
				f = app("=", o.S, "0")
			case SSlice:
				f = app("=", app("s.arr", o.S), "0")
			case SIface:
				f = app("=", app("i.tag", o.S), "0")
			default:
				return Term{}, fmt.Errorf("comparison of sort %s with nil", o.Sort)
			}
		default:
			a, b = x.numUnify(a, b)
			if a.Sort != b.Sort {
				return Term{}, fmt.Errorf("comparison of sorts %s and %s", a.Sort, b.Sort)
			}
			f = mkEq(a.S, b.S)
		}
		if op == "!=" {
			f = mkNot(f)
		}
		return tBool(f), nil
	}
	a, b = x.numUnify(a, b)
	if a.Sort != b.Sort {
		return Term{}, fmt.Errorf("operator %s on sorts %s and %s", op, a.Sort, b.Sort)
	}
	tokOp, ok := tokenOf[op]
	if !ok {
		return Term{}, fmt.Errorf("unsupported operator %s", op)
	}
	rt := a.T
	if rt == nil || isUntyped(rt) {
		rt = b.T
	}
	r := x.binop(nil, nil, tokOp, a, b, rt, rt, 0)
	if r.Sort != SBool {
		r.T = rt
	} else {
		r.T = types.Typ[types.Bool]
	}
	return r, nil
}

func isUntyped(t types.Type) bool {
	b, ok := t.(*types.Basic)
	return ok && b.Info()&types.IsUntyped != 0
}

func (x *Exec) numUnify(a, b Term) (Term, Term) {
	if a.Sort == SInt && b.Sort == SReal {
		a = Term{S: app("to_real", a.S), Sort: SReal, T: b.T}
	}
	if b.Sort == SInt && a.Sort == SReal {
		b = Term{S: app("to_real", b.S), Sort: SReal, T: a.T}
	}
	return a, b
}

func (p *Program) findSpec(name string, pkg *types.Package) *SpecFunc {
	if p.contracts == nil {
		return nil
	}
	if pkg != nil {
		if sf := p.contracts.specs[pkg.Name()+"."+name]; sf != nil {
			return sf
		}
	}
	return nil
}

func (x *Exec) applySpec(sf *SpecFunc, args []Term, env *Env) (Term, error) {
	if len(args) != len(sf.Params) {
		return Term{}, fmt.Errorf("spec func %s expects %d arguments, got %d", sf.Name, len(sf.Params), len(args))
	}
	var spkg *types.Package
	if sp := x.prog.byName[sf.Pkg]; sp != nil {
		spkg = sp.Pkg
	}
	rt, err := x.prog.resolveType(sf.Result, spkg)
	if err != nil {
		return Term{}, fmt.Errorf("spec func %s: %v", sf.Name, err)
	}
	var ptypes []types.Type
	for i, p := range sf.Params {
		t, err := x.prog.resolveType(p.Type, spkg)
		if err != nil {
			return Term{}, fmt.Errorf("spec func %s: %v", sf.Name, err)
		}
		ptypes = append(ptypes, t)
		args[i] = x.coerceNil(args[i], x.ss.sortOf(t))
		if args[i].Sort != x.ss.sortOf(t) {
			return Term{}, fmt.Errorf("spec func %s: argument %d has sort %s, want %s", sf.Name, i+1, args[i].Sort, x.ss.sortOf(t))
		}
	}
	if sf.Body == nil {
		name := "uf_spec_" + mangle(sf.Pkg) + "_" + mangle(sf.Name)
		rs := x.ss.sortOf(rt)
		if len(args) == 0 {
			x.vc.declConst(name, rs)
			return Term{S: name, Sort: rs, T: rt}, nil
		}
		var sorts, as []string
		for i, a := range args {
			sorts = append(sorts, x.ss.sortOf(ptypes[i]))
			as = append(as, a.S)
		}
		x.vc.declFun(name, sorts, rs)
		return Term{S: app(name, as...), Sort: rs, T: rt}, nil
	}
	if env.depth > 12 {
		return Term{}, fmt.Errorf("spec func %s: expansion too deep (recursive?)", sf.Name)
	}
	ne := *env
	ne.depth++
	ne.pkg = spkg
	ne.bound = map[string]Term{}
	ne.lookup = nil
	for i, p := range sf.Params {
		a := args[i]
		a.T = ptypes[i]
		ne.bound[p.Name] = a
	}
	r, err := x.tr(sf.Body, &ne)
	if err != nil {
		return Term{}, fmt.Errorf("in spec func %s: %v", sf.Name, err)
	}
	r = x.coerceNil(r, x.ss.sortOf(rt))
	if r.Sort != x.ss.sortOf(rt) {
		return Term{}, fmt.Errorf("spec func %s: body has sort %s, declared %s", sf.Name, r.Sort, x.ss.sortOf(rt))
	}
	r.T = rt
	return r, nil
}

func (x *Exec) trCall(e *Expr, env *Env) (Term, error) {
	callee := e.Args[0]
	argsE := e.Args[1:]
	trArgs := func() ([]Term, error) {
		var out []Term
		for _, a := range argsE {
			t, err := x.tr(a, env)
			if err != nil {
				return nil, err
			}
			out = append(out, t)
		}
		return out, nil
	}
	if callee.Op == "ident" {
		switch callee.Name {
		case "old":
			if len(argsE) != 1 {
				return Term{}, fmt.Errorf("old takes one argument")
			}
			ne := *env
			ne.inOld = true
			return x.tr(argsE[0], &ne)
		case "len", "cap":
			args, err := trArgs()
			if err != nil {
				return Term{}, err
			}
			if len(args) != 1 {
				return Term{}, fmt.Errorf("%s takes one argument", callee.Name)
			}
			a := args[0]
			switch a.Sort {
			case SSlice:
				return tInt(app("s."+callee.Name, a.S)), nil
			case SStr:
				return tInt(app("u_slen", a.S)), nil
			}
			if a.T != nil {
				if arr, ok := types.Unalias(a.T).Underlying().(*types.Array); ok {
					return tInt(intLit(arr.Len())), nil
				}
			}
			return Term{}, fmt.Errorf("len of sort %s", a.Sort)
		case "has":
			args, err := trArgs()
			if err != nil {
				return Term{}, err
			}
			if len(args) != 2 || args[0].T == nil {
				return Term{}, fmt.Errorf("has(m, k) needs a map and a key")
			}
			mt, ok := types.Unalias(args[0].T).Underlying().(*types.Map)
			if !ok {
				return Term{}, fmt.Errorf("has: first argument is not a map")
			}
			d, _ := x.heapMap(mt)
			domSel := app("select", app("select", x.get(env.state(), d).S, args[0].S), args[1].S)
			env.recordPattern(args[1].S, domSel)
			return tBool(mkAnd(mkNot(app("=", args[0].S, "0")), domSel)), nil
		case "visited":
			// visited(k): key k already produced by the map range of the current loop
			args, err := trArgs()
			if err != nil {
				return Term{}, err
			}
			t, ok, err := env.lookup("$visited", !env.inOld)
			if err != nil || !ok {
				return Term{}, fmt.Errorf("visited() used outside a map-range loop")
			}
			env.recordPattern(args[0].S, app("select", t.S, args[0].S))
			return tBool(app("select", t.S, args[0].S)), nil
		case "min", "max", "abs":
			args, err := trArgs()
			if err != nil {
				return Term{}, err
			}
			if callee.Name == "abs" {
				return Term{S: app("go_abs", args[0].S), Sort: SInt, T: args[0].T}, nil
			}
			return Term{S: app("go_"+callee.Name, args[0].S, args[1].S), Sort: SInt, T: args[0].T}, nil
		case "errorsAs", "errorsAsVal":
			if len(argsE) != 2 {
				return Term{}, fmt.Errorf("%s(err, Type)", callee.Name)
			}
			v, err := x.tr(argsE[0], env)
			if err != nil {
				return Term{}, err
			}
			te := exprToType(argsE[1])
			if te == nil {
				return Term{}, fmt.Errorf("%s: second argument must be a type", callee.Name)
			}
			t, err := x.prog.resolveType(te, env.pkg)
			if err != nil {
				return Term{}, err
			}
			ok, val := x.errorsAsTerms(v, t)
			if callee.Name == "errorsAs" {
				return tBool(ok), nil
			}
			return val, nil
		case "sprintf":
			// sprintf(format, a, ...): what fmt.Sprintf returns for string arguments (the same uninterpreted function the
			// engine uses for the call)
			args, err := trArgs()
			if err != nil {
				return Term{}, err
			}
			if len(args) < 2 || len(args) > 5 {
				return Term{}, fmt.Errorf("sprintf(format, a, ...) takes a format and 1 to 4 string arguments")
			}
			strTag := intLit(int64(x.ss.tagOf(types.Typ[types.String])))
			box, unbox := x.boxFuns(SStr)
			ts := []string{args[0].S}
			sorts := []string{SStr}
			for _, a := range args {
				if a.Sort != SStr {
					return Term{}, fmt.Errorf("sprintf(format, a, ...) takes string arguments")
				}
			}
			for _, a := range args[1:] {
				payload := app(box, a.S)
				x.vc.axiom(mkEq(app(unbox, payload), a.S))
				ts = append(ts, app("mk_Iface", strTag, payload))
				sorts = append(sorts, SIface)
			}
			f := fmt.Sprintf("uf_sprintf_%d", len(args)-1)
			x.vc.declFun(f, sorts, SStr)
			return Term{S: app(f, ts...), Sort: SStr, T: types.Typ[types.String]}, nil
		case "durationParses", "durationOf":
			args, err := trArgs()
			if err != nil {
				return Term{}, err
			}
			if len(args) != 1 || args[0].Sort != SStr {
				return Term{}, fmt.Errorf("%s(s) needs a string", callee.Name)
			}
			x.vc.declFun("uf_dur_parses", []string{SStr}, SBool)
			x.vc.declFun("uf_dur_of", []string{SStr}, SInt)
			if callee.Name == "durationOf" {
				return tInt(app("uf_dur_of", args[0].S)), nil
			}
			return tBool(app("uf_dur_parses", args[0].S)), nil
		case "urlParses":
			args, err := trArgs()
			if err != nil {
				return Term{}, err
			}
			if len(args) != 1 || args[0].Sort != SStr {
				return Term{}, fmt.Errorf("urlParses(s) needs a string")
			}
			x.vc.declFun("uf_url_parses", []string{SStr}, SBool)
			return tBool(app("uf_url_parses", args[0].S)), nil
		case "reMatch", "rePattern", "reCompiles":
			args, err := trArgs()
			if err != nil {
				return Term{}, err
			}
			x.vc.declFun("uf_re_pattern", []string{SInt}, SStr)
			x.vc.declFun("uf_re_match", []string{SStr, SStr}, SBool)
			x.vc.declFun("uf_re_compiles", []string{SStr}, SBool)
			switch {
			case callee.Name == "reMatch" && len(args) == 2 && args[0].Sort == SStr && args[1].Sort == SStr:
				return tBool(app("uf_re_match", args[0].S, args[1].S)), nil
			case callee.Name == "rePattern" && len(args) == 1 && args[0].Sort == SInt:
				return Term{S: app("uf_re_pattern", args[0].S), Sort: SStr, T: types.Typ[types.String]}, nil
			case callee.Name == "reCompiles" && len(args) == 1 && args[0].Sort == SStr:
				return tBool(app("uf_re_compiles", args[0].S)), nil
			}
			return Term{}, fmt.Errorf("bad arguments to %s", callee.Name)
		case "pureCall":
			// pureCall("pkg.Func", args...): the uninterpreted function that models a dependency function listed as pure
			if len(argsE) < 1 || argsE[0].Op != "str" {
				return Term{}, fmt.Errorf("pureCall needs the function name as a string literal")
			}
			name := argsE[0].Name
			if !pureExternal(name) {
				return Term{}, fmt.Errorf("%s is not in the list of pure dependency functions", name)
			}
			var sorts, as []string
			for _, a := range argsE[1:] {
				t, err := x.tr(a, env)
				if err != nil {
					return Term{}, err
				}
				sorts = append(sorts, t.Sort)
				as = append(as, t.S)
			}
			rs, ok := pureResultSort[name]
			if !ok {
				return Term{}, fmt.Errorf("result sort of %s is not known to specifications", name)
			}
			f := fmt.Sprintf("uf_%s_0", mangle(name))
			x.vc.declFun(f, sorts, rs)
			return Term{S: app(f, as...), Sort: rs, T: pureResultType(rs)}, nil
		case "trimSuffix":
			args, err := trArgs()
			if err != nil {
				return Term{}, err
			}
			if len(args) != 2 || args[0].Sort != SStr || args[1].Sort != SStr {
				return Term{}, fmt.Errorf("trimSuffix(s, suffix) needs two strings")
			}
			x.vc.declFun("uf_strings_TrimSuffix_0", []string{SStr, SStr}, SStr)
			return Term{S: app("uf_strings_TrimSuffix_0", args[0].S, args[1].S), Sort: SStr, T: types.Typ[types.String]}, nil
		case "member", "with":
			args, err := trArgs()
			if err != nil {
				return Term{}, err
			}
			if len(args) != 2 || !strings.HasPrefix(args[0].Sort, "(Array ") || !strings.HasSuffix(args[0].Sort, " Bool)") {
				return Term{}, fmt.Errorf("%s(set, element) needs a ghost set", callee.Name)
			}
			if callee.Name == "member" {
				env.recordPattern(args[1].S, app("select", args[0].S, args[1].S))
				return tBool(app("select", args[0].S, args[1].S)), nil
			}
			return Term{S: app("store", args[0].S, args[1].S, "true"), Sort: args[0].Sort}, nil
		case "appendsOnly":
			// appendsOnly(s): every array cell that existed in the old state is unchanged, except cells of s's own array
			// beyond its length (the spare capacity an in-place append writes to)
			args, err := trArgs()
			if err != nil {
				return Term{}, err
			}
			if len(args) != 1 || args[0].Sort != SSlice || args[0].T == nil {
				return Term{}, fmt.Errorf("appendsOnly(s) needs one slice")
			}
			sl, ok := types.Unalias(args[0].T).Underlying().(*types.Slice)
			if !ok {
				return Term{}, fmt.Errorf("appendsOnly(s) needs one slice")
			}
			hname := x.heapElem(sl.Elem())
			h1, h0 := x.get(env.cur, hname).S, x.get(env.old, hname).S
			if h1 == h0 {
				return tTrue(), nil
			}
			if _, ok := x.vc.heapSort[allocVar]; !ok {
				x.vc.heapSort[allocVar] = SInt
			}
			a0 := x.get(env.old, allocVar).S
			d := args[0].S
			end := app("+", app("s.off", d), app("s.len", d))
			safe := func(arr, cell string) string {
				return mkOr(mkNot(mkEq(arr, app("s.arr", d))), mkEq(app("s.cap", d), "0"), app("<", cell, end))
			}
			frame := fmt.Sprintf("(forall ((r Int) (k Int)) (! (=> (and (< r %s) %s) (= (select (select %s r) k) (select (select %s r) k))) :pattern ((select (select %s r) k))))",
				a0, safe("r", "k"), h1, h0, h1)
			if env.assumeSide && simpleConst(h1) && simpleConst(h0) {
				hs := x.varSort(hname)
				es := hs[len("(Array Int (Array Int ") : len(hs)-2]
				a1, ao := x.elemAt(hname, h1, "s", "i", es), x.elemAt(hname, h0, "s", "i", es)
				frame = mkAnd(frame, fmt.Sprintf("(forall ((s Slice) (i Int)) (! (=> (and (< (s.arr s) %s) %s) (= %s %s)) :pattern (%s) :pattern (%s)))",
					a0, safe("(s.arr s)", "(+ (s.off s) i)"), a1, ao, a1, ao))
				if _, ok := x.vc.funs["uf_in_"+mangle(es)]; ok {
					i1, i0 := x.inSlice(hname, h1, "s", "v", es, false), x.inSlice(hname, h0, "s", "v", es, false)
					frame = mkAnd(frame, fmt.Sprintf("(forall ((s Slice) (v %s)) (! (=> (and (< (s.arr s) %s) (>= (s.off s) 0) (>= (s.len s) 0) %s) (= %s %s)) :pattern (%s) :pattern (%s)))",
						es, a0, mkOr(mkNot(mkEq("(s.arr s)", app("s.arr", d))), mkEq(app("s.cap", d), "0"), app("<=", "(+ (s.off s) (s.len s))", end)), i1, i0, i1, i0))
				}
			}
			return tBool(frame), nil
		case "contains":
			// contains(s, v): v is an element of the slice s (in the current state, or the old one inside old(...))
			args, err := trArgs()
			if err != nil {
				return Term{}, err
			}
			if len(args) != 2 || args[0].Sort != SSlice || args[0].T == nil {
				return Term{}, fmt.Errorf("contains(s, v) needs a slice and a value")
			}
			sl, ok := types.Unalias(args[0].T).Underlying().(*types.Slice)
			if !ok || x.ss.sortOf(sl.Elem()) != args[1].Sort {
				return Term{}, fmt.Errorf("contains(s, v): v must have the element type of s")
			}
			h := x.heapElem(sl.Elem())
			return tBool(x.inSlice(h, x.get(env.state(), h).S, args[0].S, args[1].S, args[1].Sort, true)), nil
		case "modifiesOnly", "modifiesNone":
			// modifiesOnly(s, t, ...): in the element heap of these slices, every array other than theirs is as in the old state
			args, err := trArgs()
			if err != nil {
				return Term{}, err
			}
			if len(args) == 0 {
				return Term{}, fmt.Errorf("modifiesOnly(s, ...) needs at least one slice")
			}
			var hname string
			var conds []string
			for _, a := range args {
				if a.Sort != SSlice || a.T == nil {
					return Term{}, fmt.Errorf("modifiesOnly(s, ...) needs slices")
				}
				sl, ok := types.Unalias(a.T).Underlying().(*types.Slice)
				if !ok {
					return Term{}, fmt.Errorf("modifiesOnly(s, ...) needs slices")
				}
				h := x.heapElem(sl.Elem())
				if hname != "" && h != hname {
					return Term{}, fmt.Errorf("modifiesOnly: slices of different element types")
				}
				hname = h
				if callee.Name == "modifiesNone" {
					// modifiesNone(s): no array of s's element heap that existed in the old state has been written
					continue
				}
				// a slice without capacity cannot be written through, whatever array it points into
				conds = append(conds, mkOr(mkNot(mkEq("r", app("s.arr", a.S))), mkEq(app("s.cap", a.S), "0")))
			}
			h1, h0 := x.get(env.cur, hname).S, x.get(env.old, hname).S
			if h1 == h0 {
				return tTrue(), nil
			}
			if _, ok := x.vc.heapSort[allocVar]; !ok {
				x.vc.heapSort[allocVar] = SInt
			}
			// arrays allocated since the old state are new, not modified
			conds = append(conds, app("<", "r", x.get(env.old, allocVar).S))
			frame := fmt.Sprintf("(forall ((r Int)) (! (=> %s (= (select %s r) (select %s r))) :pattern ((select %s r))))", mkAnd(conds...), h1, h0, h1)
			if env.assumeSide && simpleConst(h1) && simpleConst(h0) {
				// consequences of the array-level frame at the level of s[i] and contains(s, v), for either trigger
				frame = mkAnd(frame, x.sliceFrame(hname, h0, h1, strings.ReplaceAll(mkAnd(conds...), " r ", " (s.arr s) ")))
			}
			return tBool(frame), nil
		case "fresh":
			// fresh(s): the slice's backing array (or the pointer's object) was allocated after the function was entered
			args, err := trArgs()
			if err != nil {
				return Term{}, err
			}
			if len(args) != 1 {
				return Term{}, fmt.Errorf("fresh(x) takes one argument")
			}
			if _, ok := x.vc.heapSort[allocVar]; !ok {
				x.vc.heapSort[allocVar] = SInt
			}
			a0 := x.get(env.old, allocVar).S
			switch args[0].Sort {
			case SSlice:
				return tBool(mkOr(app("=", app("s.cap", args[0].S), "0"), app(">=", app("s.arr", args[0].S), a0))), nil
			case SInt:
				return tBool(mkOr(app("=", args[0].S, "0"), app(">=", args[0].S, a0))), nil
			}
			return Term{}, fmt.Errorf("fresh(x) needs a slice or a pointer")
		case "sameArray", "sameBase":
			args, err := trArgs()
			if err != nil {
				return Term{}, err
			}
			if len(args) != 2 || args[0].Sort != SSlice || args[1].Sort != SSlice {
				return Term{}, fmt.Errorf("%s(s, t) needs two slices", callee.Name)
			}
			if callee.Name == "sameBase" {
				// same array, same starting offset, same capacity: the two slices differ at most in length
				return tBool(mkAnd(mkEq(app("s.arr", args[0].S), app("s.arr", args[1].S)), mkEq(app("s.off", args[0].S), app("s.off", args[1].S)), mkEq(app("s.cap", args[0].S), app("s.cap", args[1].S)))), nil
			}
			return tBool(mkEq(app("s.arr", args[0].S), app("s.arr", args[1].S))), nil
		case "hasPrefix", "hasSuffix":
			args, err := trArgs()
			if err != nil {
				return Term{}, err
			}
			if len(args) != 2 || args[0].Sort != SStr || args[1].Sort != SStr {
				return Term{}, fmt.Errorf("%s(s, p) needs two strings", callee.Name)
			}
			f := "uf_HasPrefix"
			if callee.Name == "hasSuffix" {
				f = "uf_HasSuffix"
			}
			x.vc.declFun(f, []string{SStr, SStr}, SBool)
			return tBool(app(f, args[0].S, args[1].S)), nil
		case "errorsIs":
			args, err := trArgs()
			if err != nil {
				return Term{}, err
			}
			if len(args) != 2 {
				return Term{}, fmt.Errorf("errorsIs(err, target)")
			}
			x.vc.declFun("uf_errors_Is", []string{SIface, SIface}, SBool)
			return tBool(app("uf_errors_Is", args[0].S, args[1].S)), nil
		case "dyn":
			// dyn(iface, T): the dynamic type of the interface value is T
			if len(argsE) != 2 {
				return Term{}, fmt.Errorf("dyn(value, Type)")
			}
			v, err := x.tr(argsE[0], env)
			if err != nil {
				return Term{}, err
			}
			te := exprToType(argsE[1])
			if te == nil {
				return Term{}, fmt.Errorf("dyn: second argument must be a type")
			}
			t, err := x.prog.resolveType(te, env.pkg)
			if err != nil {
				return Term{}, err
			}
			return tBool(app("=", app("i.tag", v.S), intLit(int64(x.ss.tagOf(t))))), nil
		case "unbox":
			if len(argsE) != 2 {
				return Term{}, fmt.Errorf("unbox(value, Type)")
			}
			v, err := x.tr(argsE[0], env)
			if err != nil {
				return Term{}, err
			}
			te := exprToType(argsE[1])
			if te == nil {
				return Term{}, fmt.Errorf("unbox: second argument must be a type")
			}
			t, err := x.prog.resolveType(te, env.pkg)
			if err != nil {
				return Term{}, err
			}
			return x.unboxIface(v, t), nil
		}
		if _, isBound := env.bound[callee.Name]; !isBound {
			if sf := x.prog.findSpec(callee.Name, env.pkg); sf != nil {
				args, err := trArgs()
				if err != nil {
					return Term{}, err
				}
				return x.applySpec(sf, args, env)
			}
			// conversion T(x)
			if te := exprToType(callee); te != nil {
				if t, err := x.prog.resolveType(te, env.pkg); err == nil && len(argsE) == 1 {
					a, err := x.tr(argsE[0], env)
					if err != nil {
						return Term{}, err
					}
					if x.ss.sortOf(t) == a.Sort {
						a.T = t
						return a, nil
					}
					if a.Sort == SSlice && x.ss.sortOf(t) == SStr && a.T != nil {
						if sl, ok := types.Unalias(a.T).Underlying().(*types.Slice); ok {
							return x.bytesToString(nil, env.state(), a, sl.Elem()), nil
						}
					}
					if a.Sort == SInt && x.ss.sortOf(t) == SReal {
						return Term{S: app("to_real", a.S), Sort: SReal, T: t}, nil
					}
					return Term{}, fmt.Errorf("conversion from sort %s to %s not supported in specifications", a.Sort, x.ss.sortOf(t))
				}
			}
		}
		return Term{}, fmt.Errorf("unknown function %q in specification", callee.Name)
	}
	if callee.Op == "sel" {
		// pkg.spec(...) or pkg.Type(x) or method call
		if id := callee.Args[0]; id.Op == "ident" {
			if _, isBound := env.bound[id.Name]; !isBound {
				isProg := false
				if env.lookup != nil {
					if _, ok, _ := env.lookup(id.Name, true); ok {
						isProg = true
					}
				}
				if !isProg && (env.pkg == nil || env.pkg.Scope().Lookup(id.Name) == nil) {
					if tp := x.prog.findPackage(id.Name, env.pkg); tp != nil {
						if sf := x.prog.contracts.specs[tp.Name()+"."+callee.Name]; sf != nil {
							args, err := trArgs()
							if err != nil {
								return Term{}, err
							}
							return x.applySpec(sf, args, env)
						}
						if o, ok := tp.Scope().Lookup(callee.Name).(*types.TypeName); ok && len(argsE) == 1 {
							a, err := x.tr(argsE[0], env)
							if err != nil {
								return Term{}, err
							}
							if x.ss.sortOf(o.Type()) == a.Sort {
								a.T = o.Type()
								return a, nil
							}
						}
						return Term{}, fmt.Errorf("%s.%s is not a spec function or type", id.Name, callee.Name)
					}
				}
			}
		}
		recv, err := x.tr(callee.Args[0], env)
		if err != nil {
			return Term{}, err
		}
		args, err := trArgs()
		if err != nil {
			return Term{}, err
		}
		return x.trMethod(recv, callee.Name, args, env)
	}
	return Term{}, fmt.Errorf("unsupported call form")
}

func exprToType(e *Expr) *TypeExpr {
	switch e.Op {
	case "ident":
		return &TypeExpr{Kind: "name", Name: e.Name}
	case "sel":
		if e.Args[0].Op == "ident" {
			return &TypeExpr{Kind: "name", Pkg: e.Args[0].Name, Name: e.Name}
		}
	case "unary":
		if e.Name == "*" {
			if t := exprToType(e.Args[0]); t != nil {
				return &TypeExpr{Kind: "ptr", Elem: t}
			}
		}
	}
	return nil
}

// trMethod: the methods specifications may call (time arithmetic).
func (x *Exec) trMethod(recv Term, name string, args []Term, env *Env) (Term, error) {
	isTime := recv.T != nil && isTimeTime(recv.T)
	isDur := recv.T != nil && typeKey(recv.T) == "time.Duration"
	dur := func() types.Type {
		if tp := x.prog.findPackage("time", nil); tp != nil {
			return tp.Scope().Lookup("Duration").Type()
		}
		return types.Typ[types.Int64]
	}
	if isTime || isDur || recv.Sort == SInt {
		one := func() (string, error) {
			if len(args) != 1 {
				return "", fmt.Errorf("%s takes one argument", name)
			}
			return args[0].S, nil
		}
		switch name {
		case "Before":
			a, err := one()
			return tBool(app("<", recv.S, a)), err
		case "After":
			a, err := one()
			return tBool(app(">", recv.S, a)), err
		case "Equal":
			a, err := one()
			return tBool(mkEq(recv.S, a)), err
		case "Add":
			a, err := one()
			return Term{S: app("+", recv.S, a), Sort: SInt, T: recv.T}, err
		case "Sub":
			a, err := one()
			return Term{S: app("-", recv.S, a), Sort: SInt, T: dur()}, err
		case "IsZero":
			return tBool(mkEq(recv.S, "0")), nil
		case "Abs":
			return Term{S: app("go_abs", recv.S), Sort: SInt, T: recv.T}, nil
		case "Round":
			a, err := one()
			return Term{S: app("go_round", recv.S, a), Sort: SInt, T: recv.T}, err
		case "Truncate":
			a, err := one()
			return Term{S: app("go_trunc", recv.S, a), Sort: SInt, T: recv.T}, err
		}
	}
	if recv.Sort == SIface && recv.T != nil && len(args) == 0 {
		if t, ok := x.ifaceMethodValue(recv, name, env); ok {
			return t, nil
		}
	}
	if recv.T != nil && len(args) == 0 {
		// a niladic method of a concrete pint type whose body is a pure expression of the receiver
		if nt, ok := types.Unalias(deref(recv.T)).(*types.Named); ok && nt.Obj().Pkg() != nil {
			if fn := x.prog.funcByKey[nt.Obj().Pkg().Name()+"."+nt.Obj().Name()+"."+name]; fn != nil {
				if t, ok := x.pureCallValue(fn, []Term{recv}); ok {
					return t, nil
				}
			}
		}
	}
	return Term{}, fmt.Errorf("method %s is not available in specifications (receiver sort %s)", name, recv.Sort)
}

// pureCallValue symbolically evaluates a loop-free, effect-free function whose result is a closed expression of its
// arguments (constant-returning methods such as Reporter(), Meta(), String()); ok is false otherwise.
func (x *Exec) pureCallValue(fn *ssa.Function, args []Term) (Term, bool) {
	if len(fn.Blocks) == 0 || len(fn.Blocks) > 12 || fn.Signature.Results().Len() != 1 {
		return Term{}, false
	}
	if li := analyseLoops(fn); len(li.headers) > 0 {
		return Term{}, false
	}
	saved := x.vc.nodes
	fr := x.newFrame(fn, 5)
	for i, p := range fn.Params {
		if i < len(args) {
			a := args[i]
			a.T = p.Type()
			fr.vals[p] = a
		}
	}
	start := x.vc.newNode("pure." + fn.Name())
	type ret struct {
		n   *Node
		res Term
	}
	var rets []ret
	x.runFunction(fr, start, newState(), func(n *Node, st *State, results []Term, _ *ssa.Return) {
		if len(results) == 1 {
			rets = append(rets, ret{n, results[0]})
		}
	})
	created := x.vc.nodes[len(saved):]
	x.vc.nodes = saved
	if len(rets) != 1 || len(created) != 1 {
		return Term{}, false
	}
	// the single node may define named temporaries; substitute them back (they are equalities v = term)
	res := rets[0].res
	defs := map[string]string{}
	for _, st := range created[0].Stmts {
		if st.Kind != stAssume {
			return Term{}, false
		}
		f := st.F
		if strings.HasPrefix(f, "(= v_") {
			rest := f[3 : len(f)-1]
			if i := strings.IndexByte(rest, ' '); i > 0 {
				defs[rest[:i]] = rest[i+1:]
				continue
			}
		}
		continue // side conditions of the single path (bounds, non-nil): the value is that of a normal return
	}
	for i := 0; i < 8; i++ {
		changed := false
		for id := range constIdents(res.S) {
			if d, ok := defs[id]; ok {
				res.S = replaceIdent(res.S, id, d)
				changed = true
			}
		}
		if !changed {
			break
		}
	}
	for id := range constIdents(res.S) {
		if strings.HasPrefix(id, "v_") {
			known := false
			for _, a := range args {
				if constIdents(a.S)[id] {
					known = true
				}
			}
			if !known && !strings.HasPrefix(id, "v_fn_") && !strings.HasPrefix(id, "v_gaddr_") && !strings.HasPrefix(id, "v_new_") && !strings.HasPrefix(id, "v_mkslice") {
				return Term{}, false // depends on something created inside the call (allocation, heap)
			}
		}
	}
	res.T = fn.Signature.Results().At(0).Type()
	return res, true
}

func replaceIdent(s, id, repl string) string {
	var b strings.Builder
	i := 0
	for i < len(s) {
		j := strings.Index(s[i:], id)
		if j < 0 {
			b.WriteString(s[i:])
			break
		}
		j += i
		end := j + len(id)
		isIdCh := func(c byte) bool {
			return c == '_' || c == '.' || c == '!' || c == '$' || (c >= 'a' && c <= 'z') || (c >= 'A' && c <= 'Z') || (c >= '0' && c <= '9')
		}
		if (j > 0 && isIdCh(s[j-1])) || (end < len(s) && isIdCh(s[end])) {
			b.WriteString(s[i:end])
			i = end
			continue
		}
		b.WriteString(s[i:j])
		b.WriteString(repl)
		i = end
	}
	return b.String()
}

// ifaceMethodValue: value of a niladic interface method in a specification, by dispatch on the dynamic type over all
// pint implementations (class hierarchy analysis); each implementation must be a pure expression of its receiver.
func (x *Exec) ifaceMethodValue(recv Term, method string, env *Env) (Term, bool) {
	impls := x.prog.implementations(recv.T, method)
	if len(impls) == 0 {
		return Term{}, false
	}
	// the symbolic evaluation of every implementation is expensive (each one allocates, formats, ...): do it once per
	// receiver, method and version of the field heaps it can read
	var sig strings.Builder
	sig.WriteString(recv.S + "|" + method + "|" + typeKeyShort(recv.T))
	if st := env.state(); st != nil {
		var ks []string
		for k := range st.vars {
			if strings.HasPrefix(k, "Hf.") || strings.HasPrefix(k, "Hp.") || strings.HasPrefix(k, "HA.") || strings.HasPrefix(k, "HM") {
				ks = append(ks, k)
			}
		}
		sort.Strings(ks)
		for _, k := range ks {
			sig.WriteString("|" + k + "=" + st.vars[k].S)
		}
	}
	if x.methEval == nil {
		x.methEval = map[string]Term{}
	}
	if t, ok := x.methEval[sig.String()]; ok {
		return t, true
	}
	t, ok := x.ifaceMethodValueUncached(recv, method, env, impls)
	if ok {
		x.methEval[sig.String()] = t
	}
	return t, ok
}

func (x *Exec) ifaceMethodValueUncached(recv Term, method string, env *Env, impls []*ssa.Function) (Term, bool) {
	var resT types.Type
	type alt struct {
		tag int
		val Term
	}
	var alts []alt
	for _, fn := range impls {
		rt := fn.Signature.Recv().Type()
		concrete := rt
		rv := x.unboxIface(recv, concrete)
		if pt, isPtr := types.Unalias(rt).Underlying().(*types.Pointer); isPtr && fn.Synthetic != "" {
			// pointer-receiver wrapper of a value method: evaluate the value method on the pointee
			if nt, ok := types.Unalias(pt.Elem()).(*types.Named); ok && nt.Obj().Pkg() != nil {
				if vf := x.prog.funcByKey[nt.Obj().Pkg().Name()+"."+nt.Obj().Name()+"."+method]; vf != nil && vf.Signature.Recv() != nil {
					if _, vptr := vf.Signature.Recv().Type().Underlying().(*types.Pointer); !vptr {
						fn = vf
						rv = x.loadPlace(nil, env.state(), x.ptrPlaceT(nil, nil, rv, 0))
					}
				}
			}
		}
		v, ok := x.pureCallValue(fn, []Term{rv})
		if !ok {
			// not a closed expression (e.g. builds a string with Sprintf): a deterministic, effect-free but
			// uninterpreted function of the receiver value (assumption A11), provided it writes nothing
			if (len(x.prog.modHeapsList(fn)) != 0 && method != "String" && method != "Reporter" && method != "Meta") || fn.Signature.Results().Len() != 1 {
				if os.Getenv("GOVC_DEBUG") != "" {
					fmt.Fprintf(os.Stderr, "ifaceMethodValue: %s is neither pure nor effect-free\n", fn.String())
				}
				return Term{}, false
			}
			rt0 := fn.Signature.Results().At(0).Type()
			uf := "uf_meth_" + mangle(funcKey(fn))
			x.vc.declFun(uf, []string{rv.Sort}, x.ss.sortOf(rt0))
			v = Term{S: app(uf, rv.S), Sort: x.ss.sortOf(rt0), T: rt0}
			x.prog.noteExternal("A11 deterministic method: " + funcKey(fn))
		}
		resT = v.T
		alts = append(alts, alt{x.ss.tagOf(concrete), v})
		// a value-receiver method is also in the method set of the pointer type
		if _, isPtr := rt.Underlying().(*types.Pointer); !isPtr {
			pt := types.NewPointer(rt)
			pv := x.unboxIface(recv, pt)
			pl := x.ptrPlaceT(nil, nil, pv, 0)
			_ = pl
		}
	}
	sort := x.ss.sortOf(resT)
	f := "uf_iface_" + mangle(typeKeyShort(recv.T)) + "_" + mangle(method)
	x.vc.declFun(f, []string{SIface}, sort)
	out := app(f, recv.S) // unknown dynamic types (implementations outside pint): uninterpreted
	for i := len(alts) - 1; i >= 0; i-- {
		out = mkIte(app("=", app("i.tag", recv.S), intLit(int64(alts[i].tag))), alts[i].val.S, out)
	}
	// the dispatch term is large (one alternative per implementation): name it once per distinct term, so that a
	// contract mentioning check.String() twenty times does not repeat it twenty times in every script
	if len(out) > 400 {
		closed := true
		for id := range identSet(out) {
			if strings.HasPrefix(id, "q_") {
				closed = false
				break
			}
		}
		if closed {
			if x.methCache == nil {
				x.methCache = map[string]string{}
			}
			c, ok := x.methCache[out]
			if !ok {
				c = x.vc.freshConst("meth_"+mangle(method), sort)
				x.vc.axiom(mkEq(c, out))
				x.methCache[out] = c
			}
			return Term{S: c, Sort: sort, T: resT}, true
		}
	}
	return Term{S: out, Sort: sort, T: resT}, true
}


// abstractIndices rewrites X[e] (e mentions a bound variable but is not just a variable) into X[j] with a fresh
// bound variable j and the guard j == e, so that triggers contain no arithmetic (the rewrite Dafny applies).
func abstractIndices(e *Expr, vars map[string]bool, counter *int, binders *[]Binder, guards *[]*Expr) *Expr {
	if e == nil {
		return nil
	}
	if e.Op == "forall" || e.Op == "exists" {
		return e
	}
	ne := *e
	ne.Args = make([]*Expr, len(e.Args))
	for i, a := range e.Args {
		ne.Args[i] = abstractIndices(a, vars, counter, binders, guards)
	}
	if ne.Op == "index" && ne.Args[1] != nil {
		ix := ne.Args[1]
		for ix.Op == "paren" {
			ix = ix.Args[0]
		}
		if !(ix.Op == "ident" && vars[ix.Name]) && mentions(ix, vars) {
			*counter++
			name := fmt.Sprintf("ix$%d", *counter)
			*binders = append(*binders, Binder{Name: name, Type: &TypeExpr{Kind: "name", Name: "int"}})
			*guards = append(*guards, &Expr{Op: "binary", Name: "==", Args: []*Expr{{Op: "ident", Name: name}, ix}})
			ne.Args[1] = &Expr{Op: "ident", Name: name}
		}
	}
	return &ne
}

func mentions(e *Expr, vars map[string]bool) bool {
	if e == nil {
		return false
	}
	if e.Op == "ident" && vars[e.Name] {
		return true
	}
	for _, a := range e.Args {
		if mentions(a, vars) {
			return true
		}
	}
	return false
}

func (x *Exec) trQuant(e *Expr, env *Env) (Term, error) {
	vars := map[string]bool{}
	for _, b := range e.Binders {
		vars[b.Name] = true
	}
	binders := append([]Binder{}, e.Binders...)
	var guardsE []*Expr
	counter := 0
	body := abstractIndices(e.Args[0], vars, &counter, &binders, &guardsE)
	ne := env
	var decls []string
	var guards []string
	pc := &patCollector{vars: map[string]bool{}, terms: map[string][]string{}}
	var smtNames []string
	for _, b := range binders {
		t, err := x.prog.resolveType(b.Type, env.pkg)
		if err != nil {
			return Term{}, err
		}
		x.vc.fresh++
		name := fmt.Sprintf("q_%s_%d", mangle(b.Name), x.vc.fresh)
		s := x.ss.sortOf(t)
		decls = append(decls, "("+name+" "+s+")")
		ne = ne.withBound(b.Name, Term{S: name, Sort: s, T: t})
		pc.vars[name] = true
		smtNames = append(smtNames, name)
		if s == SSlice {
			guards = append(guards, wfSlice(name))
		}
		if isUnsigned(t) {
			guards = append(guards, app(">=", name, "0"))
		}
	}
	ne2 := *ne
	ne2.quants = append(append([]*patCollector{}, env.quants...), pc)
	for _, g := range guardsE {
		f, err := x.trBool(g, &ne2)
		if err != nil {
			return Term{}, err
		}
		guards = append(guards, f)
	}
	bodyS, err := x.trBool(body, &ne2)
	if err != nil {
		return Term{}, err
	}
	g := mkAnd(guards...)
	if e.Op == "exists" {
		return tBool("(exists (" + strings.Join(decls, " ") + ") " + mkAnd(g, bodyS) + ")"), nil
	}
	inner := mkImp(g, bodyS)
	// triggers: one term per bound variable; alternatives when a variable indexes several terms
	pats := buildPatterns(smtNames, pc.terms)
	if len(pats) > 0 && inner != "true" {
		var ps []string
		for _, p := range pats {
			ps = append(ps, ":pattern ("+strings.Join(p, " ")+")")
		}
		inner = "(! " + inner + " " + strings.Join(ps, " ") + ")"
	}
	return tBool("(forall (" + strings.Join(decls, " ") + ") " + inner + ")"), nil
}

func buildPatterns(vars []string, terms map[string][]string) [][]string {
	for _, v := range vars {
		if len(terms[v]) == 0 {
			return nil // some variable has no trigger term: leave trigger selection to the solver
		}
	}
	pats := [][]string{{}}
	for _, v := range vars {
		var next [][]string
		for _, p := range pats {
			for _, t := range terms[v] {
				if len(next) >= 8 {
					break
				}
				next = append(next, append(append([]string{}, p...), t))
			}
		}
		pats = next
	}
	return pats
}

var pureResultSort = map[string]string{"strings.Trim": SStr, "strings.TrimSpace": SStr, "strings.TrimSuffix": SStr, "strings.TrimPrefix": SStr, "strings.ToLower": SStr,
	"strings.Contains": SBool, "strings.Index": SInt, "strings.Count": SInt,
	"(*github.com/prometheus/prometheus/promql/parser.VectorSelector).String": SStr,
	"(*gopkg.in/yaml.v3.Node).ShortTag": SStr, "github.com/prometheus/common/model.IsValidMetricName": SBool,
	"(github.com/prometheus/common/model.LabelName).IsValid": SBool, "(github.com/prometheus/common/model.LabelValue).IsValid": SBool}

func pureResultType(sort string) types.Type {
	switch sort {
	case SStr:
		return types.Typ[types.String]
	case SBool:
		return types.Typ[types.Bool]
	}
	return types.Typ[types.Int]
}
