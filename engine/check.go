package main

import (
	"bufio"
	"encoding/json"
	"flag"
	"fmt"
	"os"
	"path/filepath"
	"sort"
	"strconv"
	"strings"
	"time"
)

type knownFinding struct {
	Property   string
	Obligation string
	Text       string
	used       bool
}

func loadKnown(path string) ([]*knownFinding, []string) {
	var out []*knownFinding
	var fixed []string
	fh, err := os.Open(path)
	if err != nil {
		return nil, nil
	}
	defer fh.Close()
	sc := bufio.NewScanner(fh)
	for sc.Scan() {
		l := strings.TrimSpace(sc.Text())
		if l == "" || strings.HasPrefix(l, "#") {
			continue
		}
		if strings.HasPrefix(l, "fixed:") {
			fixed = append(fixed, l)
			continue
		}
		if !strings.HasPrefix(l, "known:") {
			continue
		}
		kf := &knownFinding{}
		rest := strings.TrimSpace(strings.TrimPrefix(l, "known:"))
		desc := ""
		if i := strings.Index(rest, " :: "); i >= 0 {
			desc = rest[i+4:]
			rest = rest[:i]
		}
		for _, f := range strings.Fields(rest) {
			if strings.HasPrefix(f, "property=") {
				kf.Property = strings.TrimPrefix(f, "property=")
			}
			if strings.HasPrefix(f, "obligation=") {
				kf.Obligation = strings.TrimPrefix(f, "obligation=")
			}
		}
		kf.Text = desc
		out = append(out, kf)
	}
	return out, fixed
}

func hasProp(props []string, id string) bool {
	for _, p := range props {
		if p == id {
			return true
		}
	}
	return false
}

type sampleOb struct {
	Name    string  `json:"obligation"`
	Kind    string  `json:"kind"`
	Clause  string  `json:"clause"`
	Status  string  `json:"status"`
	Solver  string  `json:"solver"`
	TimeS   float64 `json:"solver_s"`
	SMTSize int     `json:"smt_bytes"`
}

func cmdCheck(args []string) {
	fs := flag.NewFlagSet("check", flag.ExitOnError)
	repo := fs.String("repo", "/repo", "repository root")
	verif := fs.String("verif", "/verif", "verification directory")
	prop := fs.String("prop", "", "property id")
	tier := fs.String("tier", "quick", "quick|thorough")
	level := fs.String("level", "proof", "claimed level written into the evidence")
	noEvidence := fs.Bool("no-evidence", false, "do not write evidence (self-test runs)")
	verbose := fs.Bool("v", false, "verbose")
	fs.Parse(args)
	if *prop == "" {
		fmt.Fprintln(os.Stderr, "check: -prop required")
		os.Exit(2)
	}
	seed := 0
	if s := os.Getenv("VERIF_SEED"); s != "" {
		seed, _ = strconv.Atoi(s)
	}
	t0 := time.Now()
	replayDir := filepath.Join(*verif, "replays", *prop)
	os.RemoveAll(replayDir)
	os.MkdirAll(replayDir, 0o755)
	violations := 0
	reported := map[string]bool{}
	report := func(name string, payload map[string]any, noInput bool) {
		if reported[name] {
			return
		}
		reported[name] = true
		violations++
		payload["property"] = *prop
		payload["obligation"] = name
		path := filepath.Join(replayDir, mangle(name)+".json")
		b, _ := json.MarshalIndent(payload, "", " ")
		os.WriteFile(path, b, 0o644)
		suffix := ""
		if noInput {
			suffix = " no-failing-input-found"
		}
		fmt.Printf("VIOLATION property=%s replay=%s obligation=%s%s\n", *prop, path, name, suffix)
	}

	p, err := load(*repo)
	if err != nil {
		// the tree does not load (syntax/type error in source or contracts): the property cannot be decided
		report("load", map[string]any{"reason": "cannot load packages or contracts", "error": err.Error()}, true)
		writeEvidence(*verif, *prop, *tier, *level, seed, t0, nil, nil, nil, violations, nil, *noEvidence, nil)
		os.Exit(1)
	}
	known, _ := loadKnown(filepath.Join(*verif, "known_findings.txt"))

	var obls []*Obligation
	var vcs []*VC
	var funcs []string
	var trusted []string
	for _, fc := range p.contracts.funcs {
		relevant := hasProp(fc.Props, *prop)
		if !relevant {
			for _, cl := range allClauses(fc) {
				if hasProp(cl.Props, *prop) {
					relevant = true
				}
			}
		}
		if !relevant {
			continue
		}
		if fc.AssumeRequires {
			trusted = append(trusted, "preconditions of "+fc.Key()+" are assumed at its call sites (facts about a dependency's data)")
		}
		for _, ord := range sortedLoopOrds(fc) {
			for _, a := range fc.Loops[ord].Assumed {
				trusted = append(trusted, fmt.Sprintf("assumed (not proved) at the head of loop %d of %s: %s", ord, fc.Key(), a.Src))
			}
		}
		for _, e := range fc.Ensures {
			if e.Assumed {
				trusted = append(trusted, "assumed postcondition of "+fc.Key()+" (used at its call sites, the body is not checked against it): "+e.Src)
			}
		}
		for _, cn := range fc.AssumeCallee {
			trusted = append(trusted, "inside "+fc.Key()+" the preconditions of "+cn+" are assumed at its call sites, not proved")
		}
		if fc.Trusted {
			trusted = append(trusted, "trusted contract (assumed at call sites, body not verified): "+fc.Key())
			continue
		}
		fn := p.lookupFunc(fc.Key())
		if fn == nil {
			report(fc.Key()+"#contract-unbound", map[string]any{"reason": "contract-unbound: the function named by the contract no longer exists", "contract": fc.File + ":" + fmt.Sprint(fc.Line)}, true)
			continue
		}
		funcs = append(funcs, fc.Key())
		vc := p.verifyFunction(fc, fn)
		vcs = append(vcs, vc)
		for _, ob := range vc.obls {
			if hasProp(ob.Props, *prop) {
				obls = append(obls, ob)
			}
		}
	}
	for _, l := range p.contracts.lemmas {
		if !hasProp(l.Props, *prop) {
			continue
		}
		funcs = append(funcs, l.Key())
		vc := p.verifyLemma(l)
		vcs = append(vcs, vc)
		obls = append(obls, vc.obls...)
	}
	structural := p.structuralChecks(*prop)
	for _, ce := range p.contractErrors {
		if len(ce.Props) == 0 || hasProp(ce.Props, *prop) {
			report(ce.Fn+"#contract-error:"+fmt.Sprint(ce.Line), map[string]any{"reason": "contract-unbound: a contract clause no longer resolves against the code", "clause": ce.Clause, "error": ce.Err, "file": ce.File, "line": ce.Line}, true)
		}
	}
	timeout := 10
	all := false
	if *tier == "thorough" {
		timeout = 60
		all = true
	}
	for _, ob := range obls {
		for _, k := range known {
			if k.Property == *prop && k.Obligation == ob.Name {
				ob.Short = *tier != "thorough"
			}
		}
	}
	runObligations(obls, timeout, all, "", 16)
	sort.SliceStable(obls, func(i, j int) bool { return obls[i].Name < obls[j].Name })

	claimed, discharged, covers, knownN := 0, 0, 0, 0
	bySolver := map[string]int{}
	solverTime := 0.0
	var samples []sampleOb
	var knownLines []string
	for _, ob := range obls {
		solverTime += ob.TimeS
		if *verbose {
			fmt.Printf("%-14s %-70s %6.2fs %s\n", ob.Status, ob.Name, ob.TimeS, ob.Solver)
		}
		samples = append(samples, sampleOb{ob.Name, ob.Kind, trunc(ob.Clause, 160), ob.Status, ob.Solver, ob.TimeS, ob.SMTSize})
		if ob.Kind == "cover" {
			covers++
			if ob.Status == "cover-failed" {
				report(ob.Name, map[string]any{"reason": "vacuity: this point is unreachable under the assumed contracts (contradictory precondition, invariant or axiom)", "clause": ob.Clause, "pos": ob.Pos}, true)
			}
			continue
		}
		var kf *knownFinding
		for _, k := range known {
			if k.Property == *prop && k.Obligation == ob.Name {
				kf = k
			}
		}
		switch ob.Status {
		case "discharged":
			if kf != nil {
				// a listed finding that no longer fails: report nothing, it is simply discharged
			}
			claimed++
			discharged++
			bySolver[ob.Solver]++
		case "structural-ok":
			claimed++
			discharged++
			bySolver["ssa-structural"]++
		default:
			if kf != nil {
				kf.used = true
				knownN++
				knownLines = append(knownLines, fmt.Sprintf("KNOWN-FINDING: property=%s %s: %s", *prop, ob.Name, kf.Text))
				continue
			}
			claimed++
			payload := map[string]any{"kind": ob.Kind, "function": ob.Fn, "clause": ob.Clause, "pos": ob.Pos, "status": ob.Status, "solvers": ob.Tried, "solver_output": trunc2(ob.Output, 6000), "model": ob.Model}
			noInput := true
			if ob.Status == "failed" {
				rp := p.replay(ob, *verif)
				payload["replay"] = rp
				if rp != nil && rp.Confirmed {
					noInput = false
				}
			}
			report(ob.Name, payload, noInput)
		}
	}
	for _, so := range structural {
		samples = append(samples, sampleOb{so.Name, "structural", so.Clause, so.Status, "ssa-structural", 0, 0})
		if so.Status == "structural-ok" {
			claimed++
			discharged++
			bySolver["ssa-structural"]++
		} else {
			var kf *knownFinding
			for _, k := range known {
				if k.Property == *prop && k.Obligation == so.Name {
					kf = k
				}
			}
			if kf != nil {
				knownN++
				knownLines = append(knownLines, fmt.Sprintf("KNOWN-FINDING: property=%s %s: %s", *prop, so.Name, kf.Text))
				continue
			}
			claimed++
			report(so.Name, map[string]any{"kind": "structural", "clause": so.Clause, "detail": so.Output, "pos": so.Pos}, true)
		}
	}
	bounded := runBounded(*verif, *repo, *prop)
	for _, br := range bounded {
		switch {
		case !br.Ran:
			report("bounded:"+br.Name, map[string]any{"reason": "the bounded check did not build or run (the code it exercises changed shape?)", "output": br.Output}, true)
		case br.Cases == 0:
			report("bounded:"+br.Name, map[string]any{"reason": "vacuity: the bounded check explored no case", "output": br.Output}, true)
		case br.Failures > 0:
			var fi any
			json.Unmarshal([]byte(br.FirstFail), &fi)
			report("bounded:"+br.Name, map[string]any{"kind": "bounded", "reason": "the real code violates the contract on an input of the bounded family", "failures": br.Failures, "cases": br.Cases, "failing_input": fi, "bound": br.Bound}, false)
		}
		// individually named inputs: each failing one is its own obligation (so that a recorded finding names exactly
		// the input that fails and any other failing input is still a violation)
		for _, nc := range br.Named {
			if nc.OK {
				continue
			}
			name := "bounded:" + br.Name + ":" + nc.Name
			var kf *knownFinding
			for _, k := range known {
				if k.Property == *prop && k.Obligation == name {
					kf = k
				}
			}
			if kf != nil {
				kf.used = true
				knownN++
				knownLines = append(knownLines, fmt.Sprintf("KNOWN-FINDING: property=%s %s: %s", *prop, name, kf.Text))
				continue
			}
			report(name, map[string]any{"kind": "bounded", "reason": "the real code violates the contract on this named input", "failing_input": nc.Detail, "bound": br.Bound}, false)
		}
	}
	if claimed == 0 && violations == 0 {
		report("no-obligations", map[string]any{"reason": "vacuity: no obligation was generated for this property"}, true)
	}
	// obligation-count guard
	if exp := expectedCount(*verif, *prop); exp > 0 && claimed+knownN < exp && violations == 0 {
		report("obligation-count", map[string]any{"reason": fmt.Sprintf("vacuity: %d obligations generated, %d expected (obligation_counts.json)", claimed+knownN, exp)}, true)
	}
	for _, l := range knownLines {
		fmt.Println(l)
	}
	var notes []string
	for _, vc := range vcs {
		notes = append(notes, vc.notes...)
	}
	extraCov := map[string]any{}
	if len(bounded) > 0 {
		extraCov["bounded"] = bounded
	}
	ev := &evidenceData{funcs: funcs, claimed: claimed, discharged: discharged, covers: covers, known: knownN, bySolver: bySolver, solverTime: solverTime, samples: samples, notes: notes, trusted: trusted}
	writeEvidence(*verif, *prop, *tier, *level, seed, t0, p, ev, knownLines, violations, extraCov, *noEvidence, vcs)
	fmt.Printf("property %s: %d obligations, %d discharged, %d known findings, %d vacuity probes, %d violations, %.1fs\n", *prop, claimed, discharged, knownN, covers, violations, time.Since(t0).Seconds())
	if violations > 0 {
		os.Exit(1)
	}
}

func allClauses(fc *FuncContract) []Clause {
	var out []Clause
	out = append(out, fc.Requires...)
	out = append(out, fc.Ensures...)
	for _, l := range fc.Loops {
		out = append(out, l.Invariants...)
		if l.Decreases != nil {
			out = append(out, *l.Decreases)
		}
	}
	for _, a := range fc.Asserts {
		out = append(out, a.Clause)
	}
	return out
}

func expectedCount(verif, prop string) int {
	b, err := os.ReadFile(filepath.Join(verif, "obligation_counts.json"))
	if err != nil {
		return 0
	}
	m := map[string]int{}
	if json.Unmarshal(b, &m) != nil {
		return 0
	}
	return m[prop]
}

type evidenceData struct {
	funcs      []string
	claimed    int
	discharged int
	covers     int
	known      int
	bySolver   map[string]int
	solverTime float64
	samples    []sampleOb
	notes      []string
	trusted    []string
}

var generalAssumptions = []string{
	"A1: golang.org/x/tools go/ssa v0.29.0 (NaiveForm) and go/types translate the source faithfully",
	"A2: an 'unsat' answer of z3 5.1.0 / z3 4.8.12 / cvc5 1.0 is correct",
	"A3: machine integers are mathematical integers (no overflow or wrap-around modelled); float64 is modelled as Real",
	"A4: time.Time is one integer nanosecond timeline; Round/Truncate/Add/Sub/Before/After are arithmetic on it",
	"A6: callees outside pint without a model write only the objects passed to them directly by pointer, slice or map (one level deep); values passed as interfaces are not mutated",
	"A9: partial correctness: postconditions hold on normal return; implicit panics are obligations only in functions marked safe; termination only where decreases is written",
	"A10: type-based memory model: one heap per struct field / element type; unsafe and reflection are not modelled",
}

func writeEvidence(verif, prop, tier, level string, seed int, t0 time.Time, p *Program, ev *evidenceData, knownLines []string, violations int, extra map[string]any, skip bool, vcs []*VC) {
	if skip {
		return
	}
	cov := map[string]any{}
	assumptions := append([]string{}, generalAssumptions...)
	if ev != nil {
		cov["obligations"] = ev.claimed
		cov["discharged"] = ev.discharged
		cov["vacuity_probes"] = ev.covers
		cov["known_finding_obligations"] = ev.known
		cov["functions_under_contract"] = ev.funcs
		cov["discharged_by"] = ev.bySolver
		cov["solver_time_s"] = round2(ev.solverTime)
		cov["samples"] = ev.samples
		cov["unmodelled_constructs"] = ev.notes
		tb := append([]string{}, ev.trusted...)
		if p != nil {
			var ext []string
			for name, n := range p.externals {
				if strings.HasPrefix(name, "spec:") {
					continue
				}
				ext = append(ext, fmt.Sprintf("unmodelled external callee (results unconstrained, effects per A6): %s x%d", name, n))
			}
			sort.Strings(ext)
			tb = append(tb, ext...)
			for name := range specUsed {
				tb = append(tb, "assumed contract (A5): "+name+" — "+specDoc[name])
			}
			if p.contracts != nil {
				for _, ax := range p.contracts.axioms {
					tb = append(tb, "axiom "+ax.Pkg+"."+ax.Name+": "+ax.Clause.Src)
				}
				tb = append(tb, fmt.Sprintf("assume-clauses in contract files: %d", p.contracts.assumeCount))
			}
		}
		sort.Strings(tb)
		cov["trusted_base"] = tb
		cov["explanation"] = fmt.Sprintf("Weakest-precondition verification conditions generated from the go/ssa form of %d real functions/lemmas under contract in /repo; %d of %d obligations discharged (unsat of the negation) by SMT solvers; %d obligations match recorded known findings and are not counted.", len(ev.funcs), ev.discharged, ev.claimed, ev.known)
	} else {
		cov["obligations"] = 0
		cov["discharged"] = 0
		cov["trusted_base"] = []string{}
		cov["explanation"] = "the tree could not be loaded; nothing was verified"
		cov["samples"] = []string{"load failure"}
	}
	cov["checker_cmd"] = fmt.Sprintf("/verif/bin/govc check -prop %s -tier %s (z3-new 5.1.0, /usr/bin/z3 4.8.12, cvc5 1.0)", prop, tier)
	cov["known_findings"] = knownLines
	for k, v := range extra {
		cov[k] = v
	}
	out := map[string]any{
		"property_id": prop,
		"tier":        tier,
		"seed":        seed,
		"level":       level,
		"coverage":    cov,
		"assumptions": assumptions,
		"wall_s":      round2(time.Since(t0).Seconds()),
		"violations":  violations,
	}
	os.MkdirAll(filepath.Join(verif, "evidence"), 0o755)
	b, _ := json.MarshalIndent(out, "", " ")
	os.WriteFile(filepath.Join(verif, "evidence", prop+".json"), b, 0o644)
}

func round2(f float64) float64 { return float64(int(f*100+0.5)) / 100 }

var specUsed = map[string]bool{}

func sortedLoopOrds(fc *FuncContract) []int {
	var out []int
	for k := range fc.Loops {
		out = append(out, k)
	}
	sort.Ints(out)
	return out
}
