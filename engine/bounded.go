package main

import (
	"context"
	"encoding/json"
	"os"
	"os/exec"
	"path/filepath"
	"regexp"
	"strconv"
	"strings"
	"time"
)

// Bounded stand-ins: where a functional contract is out of reach of the unbounded proof, the real function is run
// on every input of a stated small family (an in-package Go test injected with `go test -overlay`). They are
// reported under coverage.bounded, labelled bounded, and never counted as discharged obligations.

type boundedSpec struct {
	Property string `json:"property"`
	Name     string `json:"name"`
	PkgDir   string `json:"pkg_dir"`
	File     string `json:"file"`
	Test     string `json:"test"`
	Bound    string `json:"bound"`
}

type boundedResult struct {
	Name     string  `json:"name"`
	Bound    string  `json:"bound"`
	Cases    int     `json:"cases"`
	Distinct int     `json:"distinct"`
	Failures int     `json:"failures"`
	WallS    float64 `json:"wall_s"`
	Output   string  `json:"-"`
	FirstFail string `json:"first_failure,omitempty"`
	Ran      bool    `json:"ran"`
	Named    []boundedCase `json:"named_cases,omitempty"` // individually named inputs (GOVC-BOUNDED-CASE lines)
}

type boundedCase struct {
	Name   string `json:"name"`
	OK     bool   `json:"ok"`
	Detail string `json:"detail,omitempty"`
}

var boundedCaseLine = regexp.MustCompile(`^GOVC-BOUNDED-CASE name=(\S+) ok=(true|false) ?(.*)$`)

var boundedLine = regexp.MustCompile(`GOVC-BOUNDED name=(\S+) cases=(\d+) distinct=(\d+) failures=(\d+)`)

func runBounded(verif, repo, prop string) []boundedResult {
	b, err := os.ReadFile(filepath.Join(verif, "bounded", "index.json"))
	if err != nil {
		return nil
	}
	var specs []boundedSpec
	if json.Unmarshal(b, &specs) != nil {
		return nil
	}
	var out []boundedResult
	for _, sp := range specs {
		if sp.Property != prop {
			continue
		}
		res := boundedResult{Name: sp.Name, Bound: sp.Bound}
		t0 := time.Now()
		pkgDir := filepath.Join(repo, sp.PkgDir)
		ov := map[string]map[string]string{"Replace": {filepath.Join(pkgDir, "zz_govc_bounded_test.go"): filepath.Join(verif, "bounded", sp.File)}}
		ovb, _ := json.Marshal(ov)
		tmp := filepath.Join(verif, "replays", "src")
		os.MkdirAll(tmp, 0o755)
		ovPath := filepath.Join(tmp, mangle(sp.Name)+".overlay.json")
		os.WriteFile(ovPath, ovb, 0o644)
		ctx, cancel := context.WithTimeout(context.Background(), 10*time.Minute)
		cmd := exec.CommandContext(ctx, "go", "test", "-overlay", ovPath, "-vet=off", "-count=1", "-v", "-timeout", "9m", "-run", "^"+sp.Test+"$", ".")
		cmd.Dir = pkgDir
		cmd.Env = append(os.Environ(), "GOFLAGS=-mod=mod", "GOPROXY=off")
		o, _ := cmd.CombinedOutput()
		cancel()
		res.WallS = round2(time.Since(t0).Seconds())
		res.Output = trunc2(string(o), 4000)
		if m := boundedLine.FindStringSubmatch(string(o)); m != nil {
			res.Ran = true
			res.Cases, _ = strconv.Atoi(m[2])
			res.Distinct, _ = strconv.Atoi(m[3])
			res.Failures, _ = strconv.Atoi(m[4])
		}
		for _, l := range strings.Split(string(o), "\n") {
			if strings.HasPrefix(l, "GOVC-BOUNDED-FAIL ") {
				res.FirstFail = strings.TrimPrefix(l, "GOVC-BOUNDED-FAIL ")
			}
			if m := boundedCaseLine.FindStringSubmatch(l); m != nil {
				res.Named = append(res.Named, boundedCase{Name: m[1], OK: m[2] == "true", Detail: m[3]})
			}
		}
		out = append(out, res)
	}
	return out
}
