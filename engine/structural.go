package main

import (
	"fmt"
	"go/types"
	"sort"
	"strings"

	"golang.org/x/tools/go/ssa"
)

// Structural obligations: facts checked directly on the SSA form (no solver):
//   structural only-called-from CALLEE :: CALLER, CALLER...      every call site of CALLEE lies in one of the callers
//   structural locked-send FUNC lock=L unlock=U chan=FIELD         every send on the FIELD channel in FUNC (or in a
//        closure FUNC creates) is dominated by a call L(k), and a `defer U(k)` with the same key value precedes it

type structOb struct {
	Name, Clause, Status, Output, Pos string
}

func (p *Program) structuralChecks(prop string) []structOb {
	if p.contracts == nil {
		return nil
	}
	var out []structOb
	for _, sc := range p.contracts.structurals {
		if !hasProp(sc.Props, prop) {
			continue
		}
		fs := strings.Fields(sc.Text)
		if len(fs) == 0 {
			continue
		}
		ob := structOb{Name: fmt.Sprintf("%s.structural:%s", sc.Pkg, mangle(sc.Text)), Clause: sc.Text, Pos: fmt.Sprintf("%s:%d", sc.File, sc.Line)}
		var err error
		var detail string
		switch fs[0] {
		case "only-called-from":
			detail, err = p.checkOnlyCalledFrom(sc)
		case "locked-send":
			detail, err = p.checkLockedSend(sc)
		default:
			err = fmt.Errorf("unknown structural clause %q", fs[0])
		}
		if err != nil {
			ob.Status = "structural-failed"
			ob.Output = err.Error()
		} else {
			ob.Status = "structural-ok"
			ob.Output = detail
		}
		out = append(out, ob)
	}
	return out
}

func keyMatches(key, want string) bool {
	return key == want || strings.HasSuffix(key, "."+want)
}

func (p *Program) checkOnlyCalledFrom(sc StructuralClause) (string, error) {
	parts := strings.SplitN(strings.TrimSpace(strings.TrimPrefix(sc.Text, "only-called-from")), "::", 2)
	if len(parts) != 2 {
		return "", fmt.Errorf("syntax: only-called-from CALLEE :: CALLER, ...")
	}
	callee := strings.TrimSpace(parts[0])
	var callers []string
	for _, c := range strings.Split(parts[1], ",") {
		callers = append(callers, strings.TrimSpace(c))
	}
	sites := 0
	var bad []string
	for _, fn := range p.allFuncs {
		for _, b := range fn.Blocks {
			for _, in := range b.Instrs {
				ci, ok := in.(ssa.CallInstruction)
				if !ok {
					continue
				}
				com := ci.Common()
				hit := false
				if sc := com.StaticCallee(); sc != nil {
					for _, n := range calleeNames(sc) {
						if keyMatches(n, callee) {
							hit = true
						}
					}
				} else if com.IsInvoke() {
					if keyMatches(typeKeyShort(com.Value.Type())+"."+com.Method.Name(), callee) {
						hit = true
					}
				}
				// address taken (passed as a value) also counts as a use
				if !hit {
					continue
				}
				sites++
				okCaller := false
				for _, c := range callers {
					if keyMatches(funcKey(fn), c) {
						okCaller = true
					}
				}
				if !okCaller {
					bad = append(bad, funcKey(fn)+" at "+p.pos(in.Pos()))
				}
			}
		}
	}
	for fn := range p.addrTaken {
		for _, n := range calleeNames(fn) {
			if keyMatches(n, callee) && p.isPint(fn) {
				bad = append(bad, "address of "+funcKey(fn)+" is taken (may be called from anywhere)")
			}
		}
	}
	if sites == 0 {
		return "", fmt.Errorf("no call site of %s found (renamed?)", callee)
	}
	if len(bad) > 0 {
		sort.Strings(bad)
		return "", fmt.Errorf("%s is also called from: %s", callee, strings.Join(bad, "; "))
	}
	return fmt.Sprintf("%d call sites, all in %v", sites, callers), nil
}

func (p *Program) checkLockedSend(sc StructuralClause) (string, error) {
	fs := strings.Fields(sc.Text)
	if len(fs) < 2 {
		return "", fmt.Errorf("syntax: locked-send FUNC lock=L unlock=U chan=FIELD")
	}
	opts := map[string]string{}
	for _, f := range fs[2:] {
		if i := strings.Index(f, "="); i > 0 {
			opts[f[:i]] = f[i+1:]
		}
	}
	var fn *ssa.Function
	for k, f := range p.funcByKey {
		if keyMatches(k, sc.Pkg+"."+fs[1]) || k == sc.Pkg+"."+fs[1] {
			fn = f
		}
	}
	if fn == nil {
		return "", fmt.Errorf("function %s not found", fs[1])
	}
	var lockCall ssa.Instruction
	var lockKey ssa.Value
	var unlockDefer *ssa.Defer
	for _, b := range fn.Blocks {
		for _, in := range b.Instrs {
			if c, ok := in.(*ssa.Call); ok {
				if sc := c.Common().StaticCallee(); sc != nil && keyMatches(funcKey(sc), opts["lock"]) && lockCall == nil {
					lockCall = in
					if len(c.Common().Args) >= 2 {
						lockKey = c.Common().Args[1]
					}
				}
			}
			if d, ok := in.(*ssa.Defer); ok {
				if sc := d.Common().StaticCallee(); sc != nil && keyMatches(funcKey(sc), opts["unlock"]) && unlockDefer == nil {
					unlockDefer = d
				}
			}
		}
	}
	if lockCall == nil {
		return "", fmt.Errorf("%s does not call %s", fs[1], opts["lock"])
	}
	if unlockDefer == nil {
		return "", fmt.Errorf("%s does not defer %s", fs[1], opts["unlock"])
	}
	if len(unlockDefer.Common().Args) < 2 || !sameKey(unlockDefer.Common().Args[1], lockKey) {
		return "", fmt.Errorf("%s: lock and deferred unlock use different keys", fs[1])
	}
	before := func(a, b ssa.Instruction) bool {
		if a.Block() == b.Block() {
			return instrIndex(a) < instrIndex(b)
		}
		return a.Block().Dominates(b.Block())
	}
	if !before(lockCall, unlockDefer) {
		return "", fmt.Errorf("%s: the unlock is deferred before the lock is taken", fs[1])
	}
	// sends on the channel field, in fn or in closures created in fn
	var sites []ssa.Instruction
	var scan func(f *ssa.Function, site ssa.Instruction)
	scan = func(f *ssa.Function, site ssa.Instruction) {
		for _, b := range f.Blocks {
			for _, in := range b.Instrs {
				switch in := in.(type) {
				case *ssa.Send:
					if chanIsField(in.Chan, opts["chan"]) {
						if site != nil {
							sites = append(sites, site)
						} else {
							sites = append(sites, in)
						}
					}
				case *ssa.MakeClosure:
					s := site
					if s == nil {
						s = in
					}
					scan(in.Fn.(*ssa.Function), s)
				}
			}
		}
	}
	scan(fn, nil)
	if len(sites) == 0 {
		return "", fmt.Errorf("%s: no send on the %s channel found", fs[1], opts["chan"])
	}
	for _, s := range sites {
		if !before(lockCall, s) || !before(unlockDefer, s) {
			return "", fmt.Errorf("%s: a send on %s at %s is not bracketed by lock/deferred unlock", fs[1], opts["chan"], p.pos(s.Pos()))
		}
	}
	return fmt.Sprintf("%d send site(s) bracketed by %s(k) / defer %s(k)", len(sites), opts["lock"], opts["unlock"]), nil
}

// sameKey: two SSA values denote the same key (same value, or loads of the same local cell, or equal constants).
func sameKey(a, b ssa.Value) bool {
	if a == b {
		return true
	}
	if ca, ok := a.(*ssa.Const); ok {
		if cb, ok := b.(*ssa.Const); ok {
			return ca.Value != nil && cb.Value != nil && ca.Value.ExactString() == cb.Value.ExactString()
		}
	}
	ua, ok1 := a.(*ssa.UnOp)
	ub, ok2 := b.(*ssa.UnOp)
	if ok1 && ok2 && ua.X == ub.X {
		if al, ok := ua.X.(*ssa.Alloc); ok {
			// the cell must be assigned exactly once
			stores := 0
			for _, r := range *al.Referrers() {
				if s, ok := r.(*ssa.Store); ok && s.Addr == al {
					stores++
				}
			}
			return stores == 1
		}
	}
	return false
}

func chanIsField(v ssa.Value, field string) bool {
	if u, ok := v.(*ssa.UnOp); ok {
		if fa, ok := u.X.(*ssa.FieldAddr); ok {
			if s := structFieldName(fa); s == field {
				return true
			}
		}
	}
	return false
}

func structFieldName(fa *ssa.FieldAddr) string { return fieldNameOf(fa) }

func fieldNameOf(fa *ssa.FieldAddr) string {
	t := deref(fa.X.Type()).Underlying()
	if s, ok := t.(*types.Struct); ok {
		return s.Field(fa.Field).Name()
	}
	return ""
}
