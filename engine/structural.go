package main

// Structural obligations: facts checked directly on the SSA form (no solver), e.g. dominance of a call.

type structOb struct {
	Name, Clause, Status, Output, Pos string
}

func (p *Program) structuralChecks(prop string) []structOb {
	return nil
}
