package checks_test

// Manual replay for a C20 defect reported by a round-9 sub-agent: a dependant that selects the removed recording rule's
// metric as `{__name__="..."}` was not seen as a dependant, so the rule/dependency warning was missing.
// obligation checks.RuleDependencyCheck.usesVector#loop1-inv-pres#2
//
//	cd /repo/internal/checks && echo '{"Replace":{"'$PWD'/zz_replay_test.go":"/verif/manual_replays/C20_checks_zz_replay_test.go"}}' > /var/tmp/ov.json &&
//	GOFLAGS=-mod=mod GOPROXY=off go test -overlay /var/tmp/ov.json -vet=off -count=1 -run TestZZReplayC20NameMatcher -v .

import (
	"context"
	"strings"
	"testing"

	"github.com/prometheus/common/model"

	"github.com/cloudflare/pint/internal/checks"
	"github.com/cloudflare/pint/internal/discovery"
	"github.com/cloudflare/pint/internal/parser"
)

func TestZZReplayC20NameMatcher(t *testing.T) {
	p := parser.NewParser(false, parser.PrometheusSchema, model.UTF8Validation)
	mk := func(content, path string, state discovery.ChangeType) discovery.Entry {
		f := p.Parse(strings.NewReader(content))
		return discovery.Entry{Rule: f.Groups[0].Rules[0], State: state, Path: discovery.Path{Name: path, SymlinkTarget: path}}
	}
	removed := mk("- record: job:requests:rate5m\n  expr: sum(rate(requests[5m])) by(job)\n", "recording.yml", discovery.Removed)
	for _, expr := range []string{`job:requests:rate5m == 0`, `{__name__="job:requests:rate5m"} == 0`, `sum({__name__="job:requests:rate5m", job="x"}) == 0`} {
		user := mk("- alert: NoTraffic\n  expr: '"+expr+"'\n", "users.yml", discovery.Noop)
		problems := checks.NewRuleDependencyCheck().Check(context.Background(), removed, []discovery.Entry{removed, user})
		if len(problems) != 1 {
			t.Errorf("GOVC-REPLAY: dependant `%s`: expected one rule/dependency problem, got %d", expr, len(problems))
		}
	}
}
