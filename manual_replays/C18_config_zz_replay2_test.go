package config_test

// Manual replay for a C18 defect found in round 8: the uri of a `discovery { prometheusQuery {} }` block was never
// validated; an unparsable one is accepted by config.Load and crashes the run when discovery starts (nil *url.URL
// dereferenced in promapi.(*Prometheus).doRequest, inside a worker goroutine - the whole test binary dies).
//
//	cd /repo/internal/config && echo '{"Replace":{"'$PWD'/zz_replay_test.go":"/verif/manual_replays/C18_config_zz_replay2_test.go"}}' > /var/tmp/ov.json &&
//	GOFLAGS=-mod=mod GOPROXY=off go test -overlay /var/tmp/ov.json -vet=off -count=1 -run TestZZReplayC18Discovery -v .

import (
	"context"
	"os"
	"path"
	"testing"

	"github.com/prometheus/client_golang/prometheus"

	"github.com/cloudflare/pint/internal/config"
)

func TestZZReplayC18Discovery(t *testing.T) {
	cfgText := `discovery {
  prometheusQuery {
    uri   = "http://[::1"
    query = "up"
    template {
      name = "x"
      uri  = "http://localhost"
    }
  }
}
`
	dir := t.TempDir()
	p := path.Join(dir, "pint.hcl")
	if err := os.WriteFile(p, []byte(cfgText), 0o644); err != nil {
		t.Fatal(err)
	}
	cfg, _, err := config.Load(p, false)
	if err != nil {
		t.Logf("rejected at load time: %v", err)
		return
	}
	gen := config.NewPrometheusGenerator(cfg, prometheus.NewRegistry())
	// GOVC-REPLAY: with the defect this call never returns: a worker goroutine panics and the process dies
	err = gen.GenerateDynamic(context.Background())
	t.Logf("GenerateDynamic returned: %v", err)
}
