package parser

import (
	"io"
	"strings"
	"testing"
)

// Hand-written replays of the failed obligations parser.ContentReader.parseComments#ensures#11/#12/#13
// (the solvers return no model for these quantified goals). Each test feeds the real ContentReader.

func readAll(t *testing.T, in string) (string, *ContentReader) {
	r := newContentReader(strings.NewReader(in))
	out, err := io.ReadAll(r)
	if err != nil {
		t.Fatal(err)
	}
	return string(out), r
}

// ensures#11: a line excluded by ignore/next-line must come out blank whatever it contains.
func TestZZReplayC10ExcludedLineNotBlank(t *testing.T) {
	out, _ := readAll(t, "# pint ignore/next-line\n{{ xx }} # pint disable alerts/template\n- record: foo\n")
	line := strings.Split(out, "\n")[1]
	if strings.TrimSpace(line) != "" {
		t.Fatalf("excluded line is not blank: %q", line)
	}
}

// ensures#12: inside ignore/begin..ignore/end a marker on an excluded line must not change the automaton.
func TestZZReplayC10MarkerInsideBlockActs(t *testing.T) {
	out, _ := readAll(t, "# pint ignore/begin\n# pint ignore/next-line\nfoo\nbar: {{ baz\n# pint ignore/end\n")
	line := strings.Split(out, "\n")[3]
	if strings.TrimSpace(line) != "" {
		t.Fatalf("line 4 lies between ignore/begin and ignore/end but was not blanked: %q", line)
	}
}

// ensures#13: pint comments on excluded lines must not be recorded.
func TestZZReplayC10CommentOnExcludedLineRecorded(t *testing.T) {
	_, r := readAll(t, "# pint ignore/begin\n# pint file/disable promql/series\n# pint ignore/end\n")
	if len(r.comments) != 0 {
		t.Fatalf("a file/disable comment inside an ignore block was recorded: %v", r.comments)
	}
}
