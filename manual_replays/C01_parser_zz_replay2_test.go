package parser_test

import (
	"strings"
	"testing"

	"github.com/prometheus/common/model"
	"github.com/prometheus/prometheus/model/rulefmt"

	"github.com/cloudflare/pint/internal/parser"
)

// C01 replay (defect 21): a file with the top-level `groups` key defined twice is refused by Prometheus' loader
// (yaml: mapping key "groups" already defined) but parsed without any error by pint's strict parser.
func TestZZReplayC01DuplicatedGroupsKey(t *testing.T) {
	content := "groups:\n- name: g1\n  rules:\n  - record: foo\n    expr: up\ngroups:\n- name: g2\n  rules:\n  - record: bar\n    expr: up\n"
	_, errs := rulefmt.Parse([]byte(content), false)
	if len(errs) == 0 {
		t.Fatalf("rulefmt accepts the file")
	}
	p := parser.NewParser(true, parser.PrometheusSchema, model.UTF8Validation)
	f := p.Parse(strings.NewReader(content))
	bad := f.Error.Err != nil
	for _, g := range f.Groups {
		if g.Error.Err != nil {
			bad = true
		}
		for _, r := range g.Rules {
			if r.Error.Err != nil {
				bad = true
			}
		}
	}
	if !bad {
		t.Errorf("Prometheus refuses the file (%v) but pint parses it without any error (%d groups)", errs[0], len(f.Groups))
	}
}
