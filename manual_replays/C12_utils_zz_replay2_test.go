package utils_test

// Manual replay for C12 defects 22 and 23 (found in round 8): queries of the property's fragment that the unchanged
// analyser reported as dead code although Prometheus returns series for them.
//
//	cd /repo/internal/parser/utils && echo '{"Replace":{"'$PWD'/zz_replay_test.go":"/verif/manual_replays/C12_utils_zz_replay2_test.go"}}' > /var/tmp/ov.json &&
//	GOFLAGS=-mod=mod GOPROXY=off go test -overlay /var/tmp/ov.json -vet=off -count=1 -run TestZZReplayC12b -v .

import (
	"testing"

	"github.com/cloudflare/pint/internal/parser"
	"github.com/cloudflare/pint/internal/parser/utils"
)

func TestZZReplayC12b(t *testing.T) {
	for _, q := range []string{
		// obligation utils.parsePromQLFunc#ensures#9: a label-preserving function re-guaranteed the labels its
		// selector matched on although an aggregation in between had removed them
		`abs(sum(foo{job="a"})) * sum(bar)`,
		`ceil(sum by(instance)(foo{job="a"})) and sum by(instance)(bar)`,
		`rate(foo{job="a"}[5m]) * on(instance) group_left() sum by(instance)(abs(sum by(instance)(bar{job="b"})))`,
		// obligations utils.parseBinOps#assert9..12:store-IsDead: the partner of a join was declared unmatched because ONE
		// alternative of an `or` on the other side cannot be joined with it, although another alternative can
		`(foo or sum by(instance)(bar)) and on(job) sum by(instance)(baz)`,
		`(foo{job="a"} or sum by(instance)(bar)) and sum by(instance)(baz)`,
	} {
		n, err := parser.DecodeExpr(q)
		if err != nil {
			t.Fatal(err)
		}
		for _, s := range utils.LabelsSource(q, n.Expr) {
			s.WalkSources(func(x utils.Source) {
				if x.IsDead {
					t.Errorf("GOVC-REPLAY: %q reported as dead code: %s", q, x.IsDeadReason)
				}
			})
		}
	}
}
