package checks_test

// Manual replay for a C02 defect reported by a round-9 sub-agent: rule/label with `required = true` on a recording rule
// that has no `labels:` of its own while its group has `labels:` crashed with a nil pointer dereference.
// obligation checks.LabelCheck.checkRecordingRule#safe:nil-deref#1
//
//	cd /repo/internal/checks && echo '{"Replace":{"'$PWD'/zz_replay_test.go":"/verif/manual_replays/C02_checks_zz_replay_test.go"}}' > /var/tmp/ov.json &&
//	GOFLAGS=-mod=mod GOPROXY=off go test -overlay /var/tmp/ov.json -vet=off -count=1 -run TestZZReplayC02LabelCheck -v .

import (
	"context"
	"strings"
	"testing"

	"github.com/prometheus/common/model"

	"github.com/cloudflare/pint/internal/checks"
	"github.com/cloudflare/pint/internal/discovery"
	"github.com/cloudflare/pint/internal/parser"
)

func TestZZReplayC02LabelCheck(t *testing.T) {
	p := parser.NewParser(true, parser.PrometheusSchema, model.UTF8Validation)
	f := p.Parse(strings.NewReader("groups:\n- name: g\n  labels:\n    team: a\n  rules:\n  - record: r1\n    expr: sum(foo)\n"))
	c := checks.NewLabelCheck(checks.MustTemplatedRegexp("x"), nil, nil, nil, true, "", checks.Warning)
	for i := range f.Groups {
		for _, r := range f.Groups[i].Rules {
			func() {
				defer func() {
					if rec := recover(); rec != nil {
						t.Errorf("GOVC-REPLAY: rule/label crashed: %v", rec)
					}
				}()
				problems := c.Check(context.Background(), discovery.Entry{Rule: r, Group: &f.Groups[i], File: &f}, nil)
				if len(problems) != 1 {
					t.Errorf("GOVC-REPLAY: expected one 'required label not set' problem, got %d", len(problems))
				}
			}()
		}
	}
}
