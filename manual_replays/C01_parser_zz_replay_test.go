package parser_test

import (
	"strings"
	"testing"

	"github.com/prometheus/common/model"
	"github.com/prometheus/prometheus/model/rulefmt"

	"github.com/cloudflare/pint/internal/parser"
)

// C01 replay (defect 20): a recording rule whose name contains braces is refused by Prometheus' loader
// ("braces present in the recording rule name") but parsed as a valid rule by pint under the default (utf-8) scheme.
func TestZZReplayC01RecordBraces(t *testing.T) {
	for _, name := range []string{`foo{}`, `up{job="x"}`, `a}b`} {
		content := "groups:\n- name: g\n  rules:\n  - record: '" + name + "'\n    expr: up\n"
		p := parser.NewParser(true, parser.PrometheusSchema, model.UTF8Validation)
		_, errs := rulefmt.Parse([]byte(content), false)
		if len(errs) == 0 {
			t.Fatalf("rulefmt accepts %q", name)
		}
		f := p.Parse(strings.NewReader(content))
		bad := f.Error.Err != nil
		for _, g := range f.Groups {
			if g.Error.Err != nil {
				bad = true
			}
			for _, r := range g.Rules {
				if r.Error.Err != nil {
					bad = true
				}
			}
		}
		if !bad {
			t.Errorf("record %q: Prometheus refuses the file (%v) but pint parses it without any error", name, errs[0])
		}
	}
}
