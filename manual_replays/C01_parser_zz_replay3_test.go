package parser_test

import (
	"strings"
	"testing"

	"github.com/prometheus/common/model"
	"github.com/prometheus/prometheus/model/rulefmt"

	"github.com/cloudflare/pint/internal/parser"
)

// C01 replay (defects found in round 8): groups that Prometheus' loader refuses - no name, or a group label that is not
// a valid label name / is __name__ - but that pint's strict parser accepted without any error.
// obligations parser.parseGroup#ensures#7 and #ensures#8
func TestZZReplayC01GroupLevel(t *testing.T) {
	for _, content := range []string{
		"groups:\n- interval: 1m\n",
		"groups:\n- {}\n",
		"groups:\n- name: g\n  labels:\n    __name__: foo\n  rules:\n  - record: foo\n    expr: up\n",
		"groups:\n- name: g\n  labels:\n    \"\": foo\n  rules:\n  - record: foo\n    expr: up\n",
	} {
		_, errs := rulefmt.Parse([]byte(content), false)
		if len(errs) == 0 {
			t.Fatalf("rulefmt accepts %q", content)
		}
		p := parser.NewParser(true, parser.PrometheusSchema, model.UTF8Validation)
		f := p.Parse(strings.NewReader(content))
		bad := f.Error.Err != nil
		for _, g := range f.Groups {
			if g.Error.Err != nil {
				bad = true
			}
			for _, r := range g.Rules {
				if r.Error.Err != nil {
					bad = true
				}
			}
		}
		if !bad {
			t.Errorf("GOVC-REPLAY: Prometheus refuses %q (%v) but pint parses it without any error", content, errs[0])
		}
	}
}
