package utils_test

// Manual replay for the two C12 defects found while putting the label-flow helpers under contract
// (fixed in /repo by 7b224a9 and the following commit). Run against a tree with the fixes reverted to see both fail:
//
//	cd /repo/internal/parser/utils && echo '{"Replace":{"'$PWD'/zz_replay_test.go":"/verif/manual_replays/C12_utils_zz_replay_test.go"}}' > /var/tmp/ov.json &&
//	GOFLAGS=-mod=mod GOPROXY=off go test -overlay /var/tmp/ov.json -vet=off -count=1 -run TestZZReplayC12 -v .

import (
	"testing"

	"github.com/cloudflare/pint/internal/parser"
	"github.com/cloudflare/pint/internal/parser/utils"
)

func TestZZReplayC12(t *testing.T) {
	for _, q := range []string{
		// obligation utils.canJoin#ensures#1: labels in ignoring() are not matched on
		`foo{b="1"} and ignoring(b) sum without(b) (bar)`,
		`foo{b="1"} * ignoring(b) group_left() sum without(b) (bar)`,
		`foo{b="1"} unless ignoring(b) sum without(b) (bar)`,
		// obligation utils.parseBinOps#assert:call-canJoin (canJoin is given the operand as analysed), fixed by 42c038d
		`sum(foo) / on(a) sum(bar)`,
		`sum without(a)(foo) and on(a) sum without(a)(bar)`,
		// group_left(b) removes b when the one side lacks it (unguaranteeCopiedLabels), fixed by f95d252
		`(foo{b="1"} * on(a) group_left(b) sum by(a)(bar)) * sum by(a)(baz)`,
		// KNOWN FINDING (not repaired, the suite pins it): utils.parseBinOps#assert1/2:call-calculateStaticReturn
		`vector(1) > bool vector(2)`,
		`vector(1) > bool ignoring(x) vector(2)`,
		// obligation utils.removeFromSlice#ensures (modifiesNone): removing a label must not disturb sibling copies
		`(sum without(a) (foo{a="1",b="2"} + scalar(x or y))) and sum by(b) (bar)`,
	} {
		n, err := parser.DecodeExpr(q)
		if err != nil {
			t.Fatal(err)
		}
		for _, s := range utils.LabelsSource(q, n.Expr) {
			s.WalkSources(func(x utils.Source) {
				if x.IsDead {
					t.Errorf("GOVC-REPLAY: %q reported as dead code: %s", q, x.IsDeadReason)
				}
				for _, l := range x.GuaranteedLabels {
					if l == "" {
						t.Errorf("GOVC-REPLAY: %q has an empty guaranteed label: %q", q, x.GuaranteedLabels)
					}
				}
			})
		}
	}
}
