package config

// Manual replay for a C09 defect reported by a round-9 sub-agent: match / ignore regexps were anchored as "^" + s + "$"
// without grouping, so a top-level alternation was only half anchored.
// obligation config.strictRegex#ensures#1
//
//	cd /repo/internal/config && echo '{"Replace":{"'$PWD'/zz_replay_test.go":"/verif/manual_replays/C09_config_zz_replay_test.go"}}' > /var/tmp/ov.json &&
//	GOFLAGS=-mod=mod GOPROXY=off go test -overlay /var/tmp/ov.json -vet=off -count=1 -run TestZZReplayC09Anchoring -v .

import "testing"

func TestZZReplayC09Anchoring(t *testing.T) {
	re := strictRegex("foo|bar")
	for _, s := range []string{"foobaz", "xxbar", "dir/bar", "foo.yml"} {
		if re.MatchString(s) {
			t.Errorf("GOVC-REPLAY: the fully anchored pattern `foo|bar` matches %q", s)
		}
	}
	for _, s := range []string{"foo", "bar"} {
		if !re.MatchString(s) {
			t.Errorf("GOVC-REPLAY: `foo|bar` does not match %q", s)
		}
	}
}
