package checks_test

// Manual replay for a C18 defect found in round 8: a `link` block whose uri rewrite does not yield a URL is accepted
// at load time (it is a template over the rule's annotation) and crashed rule/link with a nil pointer dereference.
//
//	cd /repo/internal/checks && echo '{"Replace":{"'$PWD'/zz_replay_test.go":"/verif/manual_replays/C18_checks_zz_replay_test.go"}}' > /var/tmp/ov.json &&
//	GOFLAGS=-mod=mod GOPROXY=off go test -overlay /var/tmp/ov.json -vet=off -count=1 -run TestZZReplayC18Link -v .

import (
	"context"
	"strings"
	"testing"
	"time"

	"github.com/prometheus/common/model"

	"github.com/cloudflare/pint/internal/checks"
	"github.com/cloudflare/pint/internal/discovery"
	"github.com/cloudflare/pint/internal/parser"
)

func TestZZReplayC18Link(t *testing.T) {
	p := parser.NewParser(false, parser.PrometheusSchema, model.UTF8Validation)
	f := p.Parse(strings.NewReader("- alert: foo\n  expr: up == 0\n  annotations:\n    link: http://example.com/docs\n"))
	for _, headers := range []map[string]string{nil, {"X-Auth": "token"}} {
		c := checks.NewRuleLinkCheck(checks.MustTemplatedRegexp(".*"), "://x", time.Second, headers, "", checks.Bug)
		for _, g := range f.Groups {
			for _, r := range g.Rules {
				func() {
					defer func() {
						if rec := recover(); rec != nil {
							t.Errorf("GOVC-REPLAY: rule/link crashed (headers=%v): %v", headers, rec)
						}
					}()
					problems := c.Check(context.Background(), discovery.Entry{Rule: r}, nil)
					if len(problems) == 0 {
						t.Errorf("GOVC-REPLAY: no problem reported for a link that cannot be requested")
					}
				}()
			}
		}
	}
}
