package config_test

// Manual replay for C18 defects found in round 8: configurations that config.Load accepts and that crash a later run.
//
//	cd /repo/internal/config && echo '{"Replace":{"'$PWD'/zz_replay_test.go":"/verif/manual_replays/C18_config_zz_replay_test.go"}}' > /var/tmp/ov.json &&
//	GOFLAGS=-mod=mod GOPROXY=off go test -overlay /var/tmp/ov.json -vet=off -count=1 -run TestZZReplayC18 -v .

import (
	"context"
	"os"
	"path"
	"strings"
	"testing"

	"github.com/prometheus/client_golang/prometheus"
	"github.com/prometheus/common/model"

	"github.com/cloudflare/pint/internal/config"
	"github.com/cloudflare/pint/internal/discovery"
	"github.com/cloudflare/pint/internal/parser"
)

func TestZZReplayC18(t *testing.T) {
	for name, cfgText := range map[string]string{
		// obligation config.RangeQuerySettings.validate#ensures#1: an empty `max` was accepted
		"range_query empty max": "rule {\n  range_query {\n    max = \"\"\n  }\n}\n",
	} {
		t.Run(name, func(t *testing.T) {
			dir := t.TempDir()
			p := path.Join(dir, "pint.hcl")
			if err := os.WriteFile(p, []byte(cfgText), 0o644); err != nil {
				t.Fatal(err)
			}
			cfg, _, err := config.Load(p, false)
			if err != nil {
				t.Logf("rejected at load time: %v", err)
				return
			}
			defer func() {
				if r := recover(); r != nil {
					t.Errorf("GOVC-REPLAY: configuration accepted by config.Load crashes when applied to a rule: %v", r)
				}
			}()
			pp := parser.NewParser(false, parser.PrometheusSchema, model.UTF8Validation)
			f := pp.Parse(strings.NewReader("- record: foo\n  expr: sum(rate(up[5m]))\n"))
			for _, g := range f.Groups {
				for _, r := range g.Rules {
					gen := config.NewPrometheusGenerator(cfg, prometheus.NewRegistry())
					_ = gen
					e := discovery.Entry{Rule: r, Path: discovery.Path{Name: "rules.yml", SymlinkTarget: "rules.yml"}, State: discovery.Modified}
					_ = cfg.GetChecksForEntry(context.Background(), gen, e)
				}
			}
		})
	}
}
