package promapi_test

// Manual replay for a C15 defect reported by a round-9 sub-agent: a 5xx answer with a well-formed JSON error body whose
// errorType is not one pint knows ("internal" is what Prometheus sends with a 500, "unavailable" with a 503) was
// classified as `unknown`, which is not an unavailability: no failover, and checks reported it at their own severity.
// obligation promapi.tryDecodingAPIError#ensures#1
//
//	cd /repo/internal/promapi && echo '{"Replace":{"'$PWD'/zz_replay_test.go":"/verif/manual_replays/C15_promapi_zz_replay_test.go"}}' > /var/tmp/ov.json &&
//	GOFLAGS=-mod=mod GOPROXY=off go test -overlay /var/tmp/ov.json -vet=off -count=1 -run TestZZReplayC15ServerErrors -v .

import (
	"context"
	"net/http"
	"net/http/httptest"
	"sync/atomic"
	"testing"
	"time"

	"github.com/prometheus/client_golang/prometheus"

	"github.com/cloudflare/pint/internal/promapi"
)

func TestZZReplayC15ServerErrors(t *testing.T) {
	for _, c := range []struct {
		code int
		body string
	}{
		{500, `{"status":"error","errorType":"internal","error":"boom"}`},
		{503, `{"status":"error","errorType":"unavailable","error":"boom"}`},
	} {
		var second atomic.Int32
		faulty := httptest.NewServer(http.HandlerFunc(func(w http.ResponseWriter, _ *http.Request) {
			w.Header().Set("Content-Type", "application/json")
			w.WriteHeader(c.code)
			_, _ = w.Write([]byte(c.body))
		}))
		healthy := httptest.NewServer(http.HandlerFunc(func(w http.ResponseWriter, _ *http.Request) {
			second.Add(1)
			w.Header().Set("Content-Type", "application/json")
			_, _ = w.Write([]byte(`{"status":"success","data":{"resultType":"vector","result":[]}}`))
		}))
		fg := promapi.NewFailoverGroup("prom", healthy.URL, []*promapi.Prometheus{
			promapi.NewPrometheus("prom", faulty.URL, "", nil, time.Second, 1, 100, nil),
			promapi.NewPrometheus("prom", healthy.URL, "", nil, time.Second, 1, 100, nil),
		}, true, "up", nil, nil, nil)
		reg := prometheus.NewRegistry()
		fg.StartWorkers(reg)
		_, err := fg.Query(context.Background(), "up")
		fg.Close(reg)
		faulty.Close()
		healthy.Close()
		if err != nil || second.Load() == 0 {
			t.Errorf("GOVC-REPLAY: HTTP %d %s from the first upstream: err=%v, requests to the second upstream=%d (expected failover)", c.code, c.body, err, second.Load())
		}
	}
}
