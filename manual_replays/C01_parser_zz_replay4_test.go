package parser_test

import (
	"strings"
	"testing"

	"github.com/prometheus/common/model"
	"github.com/prometheus/prometheus/model/rulefmt"

	"github.com/cloudflare/pint/internal/parser"
)

// C01 replay (round 8): a YAML null as the value of record / alert / expr leaves the field unset for Prometheus, which
// refuses the rule; pint read the null as the text "null" / "~" and parsed a valid rule.
// obligation parser.parseRule#assert1:return7 / return8
func TestZZReplayC01NullFields(t *testing.T) {
	for _, rule := range []string{
		"  - record: foo\n    expr: null\n",
		"  - alert: null\n    expr: up\n",
		"  - record: ~\n    expr: up\n",
		"  - alert: foo\n    expr: ~\n",
	} {
		content := "groups:\n- name: g\n  rules:\n" + rule
		_, errs := rulefmt.Parse([]byte(content), false)
		if len(errs) == 0 {
			t.Fatalf("rulefmt accepts %q", content)
		}
		for _, strict := range []bool{true, false} {
			p := parser.NewParser(strict, parser.PrometheusSchema, model.UTF8Validation)
			f := p.Parse(strings.NewReader(content))
			bad := f.Error.Err != nil
			for _, g := range f.Groups {
				if g.Error.Err != nil {
					bad = true
				}
				for _, r := range g.Rules {
					if r.Error.Err != nil {
						bad = true
					}
				}
			}
			if !bad {
				t.Errorf("GOVC-REPLAY: strict=%v: Prometheus refuses %q (%v) but pint parses it without any error", strict, rule, errs[0])
			}
		}
	}
}
