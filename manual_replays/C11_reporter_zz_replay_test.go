package reporter

import (
	"testing"

	"github.com/cloudflare/pint/internal/checks"
	"github.com/cloudflare/pint/internal/diags"
)

// Hand-written replays of the failed lemmas reporter.lemma:isEqual_symmetric / _observes_last_line / _observes_details:
// the reports kept by Summary.Report depend on the order in which two reports arrive.

func kept(rs ...Report) []Report {
	var s Summary
	for _, r := range rs {
		s.Report(r)
	}
	return s.Reports()
}

func TestZZReplayC11LastLine(t *testing.T) {
	a := Report{Problem: checks.Problem{Reporter: "x", Summary: "s", Lines: diags.LineRange{First: 1, Last: 10}}}
	a.Rule.Lines = diags.LineRange{First: 1, Last: 8}
	b := a
	b.Problem.Lines.Last = 8
	if x, y := len(kept(a, b)), len(kept(b, a)); x != y {
		t.Fatalf("reports differing only in Problem.Lines.Last (10 vs 8): %d kept in one arrival order, %d in the other", x, y)
	}
}

func TestZZReplayC11Details(t *testing.T) {
	a := Report{Problem: checks.Problem{Reporter: "x", Summary: "s", Details: "A", Lines: diags.LineRange{First: 1, Last: 8}}}
	a.Rule.Lines = diags.LineRange{First: 1, Last: 8}
	b := a
	b.Problem.Details = "B"
	x, y := kept(a, b), kept(b, a)
	if len(x) != 2 || len(y) != 2 {
		t.Fatalf("reports differing only in Details: the one that arrives first wins (%q vs %q)", x[0].Problem.Details, y[0].Problem.Details)
	}
}

func TestZZReplayC11Diagnostics(t *testing.T) {
	d := func(m string) diags.Diagnostic { return diags.Diagnostic{Message: m, FirstColumn: 1, LastColumn: 2} }
	a := Report{Problem: checks.Problem{Reporter: "x", Summary: "s", Lines: diags.LineRange{First: 1, Last: 8}, Diagnostics: []diags.Diagnostic{d("x"), d("x")}}}
	a.Rule.Lines = diags.LineRange{First: 1, Last: 8}
	b := a
	b.Problem.Diagnostics = []diags.Diagnostic{d("x"), d("y")}
	if x, y := len(kept(a, b)), len(kept(b, a)); x != y {
		t.Fatalf("diagnostics [x x] vs [x y]: %d kept in one arrival order, %d in the other", x, y)
	}
}
