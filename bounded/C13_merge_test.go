package promapi

import (
	"encoding/json"
	"fmt"
	"sort"
	"strings"
	"testing"
	"time"
)

// Bounded stand-in for the part of C13 that is not under contract: MergeRanges (a recursive fix-point over a map of
// slices, outside the engine's subset). Exhaustive over the family below, on the REAL MergeRanges / Overlaps:
//   (1) normal form: no two result ranges of one series can still be merged (Overlaps says no);
//   (2) arrival order does not matter: every ordering of the same input ranges gives the same set of ranges;
//   (3) nothing is lost or invented: every input range lies inside a result range of its series, and every result
//       range starts and ends at input endpoints.
// Family (the bound): 2 series; per series up to 3 pairwise disjoint ranges (what the slices of one query can
// produce) drawn from 9 intervals on a 6-point grid of 1-minute steps (adjacent slices, their unions, shifted and
// single-point ranges); step = 1 minute; every ordering of the
// ranges within a series, combined in 3 interleavings (series 1 first, series 2 first, alternating).

type zzIv struct{ a, b int }

func zzPerms(n int) [][]int {
	if n == 0 {
		return [][]int{{}}
	}
	var out [][]int
	for _, p := range zzPerms(n - 1) {
		for i := 0; i <= len(p); i++ {
			q := append(append(append([]int{}, p[:i]...), n-1), p[i:]...)
			out = append(out, q)
		}
	}
	return out
}

func zzSubsets(n, max int) [][]int {
	var out [][]int
	var rec func(start int, cur []int)
	rec = func(start int, cur []int) {
		out = append(out, append([]int{}, cur...))
		if len(cur) == max {
			return
		}
		for i := start; i < n; i++ {
			rec(i+1, append(cur, i))
		}
	}
	rec(0, nil)
	return out
}

func TestZZBoundedC13Merge(t *testing.T) {
	t0 := time.Date(2024, 1, 1, 0, 0, 0, 0, time.UTC)
	step := time.Minute
	ivs := []zzIv{{0, 1}, {2, 3}, {4, 5}, {0, 3}, {2, 5}, {1, 2}, {3, 4}, {0, 0}, {5, 5}}
	mk := func(fp uint64, iv zzIv) MetricTimeRange {
		return MetricTimeRange{Fingerprint: fp, Start: t0.Add(time.Duration(iv.a) * step), End: t0.Add(time.Duration(iv.b) * step)}
	}
	canon := func(rs MetricTimeRanges) string {
		var ss []string
		for _, r := range rs {
			ss = append(ss, fmt.Sprintf("%d:%d-%d", r.Fingerprint, int(r.Start.Sub(t0)/step), int(r.End.Sub(t0)/step)))
		}
		sort.Strings(ss)
		return strings.Join(ss, " ")
	}
	cases, failures := 0, 0
	distinct := map[string]bool{}
	type failure struct {
		Input, Got, Why string
	}
	var first *failure
	fail := func(f failure) {
		failures++
		if first == nil {
			first = &f
		}
	}
	// only inputs that slices of one query can produce: the ranges of one series are pairwise disjoint in time
	disjoint := func(ss []int) bool {
		for i := range ss {
			for j := i + 1; j < len(ss); j++ {
				x, y := ivs[ss[i]], ivs[ss[j]]
				if !(x.b < y.a || y.b < x.a) {
					return false
				}
			}
		}
		return true
	}
	var subsets [][]int
	for _, ss := range zzSubsets(len(ivs), 3) {
		if disjoint(ss) {
			subsets = append(subsets, ss)
		}
	}
	perms := map[int][][]int{0: zzPerms(0), 1: zzPerms(1), 2: zzPerms(2), 3: zzPerms(3)}
	for _, s1 := range subsets {
		for _, s2 := range subsets {
			if len(s1)+len(s2) < 2 {
				continue
			}
			want := ""
			for _, p1 := range perms[len(s1)] {
				for _, p2 := range perms[len(s2)] {
					var a, b MetricTimeRanges
					for _, i := range p1 {
						a = append(a, mk(1, ivs[s1[i]]))
					}
					for _, i := range p2 {
						b = append(b, mk(2, ivs[s2[i]]))
					}
					for mode := 0; mode < 3; mode++ {
						var in MetricTimeRanges
						switch mode {
						case 0:
							in = append(append(in, a...), b...)
						case 1:
							in = append(append(in, b...), a...)
						default:
							for i := 0; i < len(a) || i < len(b); i++ {
								if i < len(a) {
									in = append(in, a[i])
								}
								if i < len(b) {
									in = append(in, b[i])
								}
							}
						}
						inText := canon(in)
						orig := append(MetricTimeRanges{}, in...)
						out, _ := MergeRanges(in, step)
						cases++
						got := canon(out)
						distinct[inText] = true
						// (1) normal form
						for i := range out {
							for j := i + 1; j < len(out); j++ {
								if _, ok := Overlaps(out[i], out[j], step); ok {
									fail(failure{inText, got, "two result ranges can still be merged"})
								}
							}
						}
						// (2) order independence
						if want == "" {
							want = got
						} else if got != want {
							fail(failure{inText, got, "another arrival order of the same ranges gave " + want})
						}
						// (3) coverage and endpoints
						for _, r := range orig {
							inside := false
							for _, o := range out {
								if o.Fingerprint == r.Fingerprint && !o.Start.After(r.Start) && !o.End.Before(r.End) {
									inside = true
								}
							}
							if !inside {
								fail(failure{inText, got, "an input range is not covered by the result"})
							}
						}
						for _, o := range out {
							sOK, eOK := false, false
							for _, r := range orig {
								if r.Fingerprint == o.Fingerprint && r.Start.Equal(o.Start) {
									sOK = true
								}
								if r.Fingerprint == o.Fingerprint && r.End.Equal(o.End) {
									eOK = true
								}
							}
							if !sOK || !eOK {
								fail(failure{inText, got, "a result range does not start/end at an input endpoint"})
							}
						}
					}
				}
			}
		}
	}
	fmt.Printf("GOVC-BOUNDED name=C13-merge-ranges-normal-form cases=%d distinct=%d failures=%d\n", cases, len(distinct), failures)
	if first != nil {
		b, _ := json.Marshal(first)
		fmt.Printf("GOVC-BOUNDED-FAIL %s\n", b)
	}
}
