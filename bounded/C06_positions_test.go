package parser

import (
	"encoding/json"
	"fmt"
	"strings"
	"testing"

	"github.com/cloudflare/pint/internal/diags"
)

// Bounded stand-in for C06 ("positions spell the text"): every rule file of a small family of layouts is parsed by
// the REAL parser (strict and relaxed) and, for every extracted field, the file is read back at the field's
// position ranges and compared with the field's value. Deterministic, exhaustive over the family below.
//
// Family (the bound): 1 rule; name written plain; expr written as plain / double-quoted / single-quoted scalar
// over {"up", "a b", "up == 0"} or as a literal block scalar (|) with indentation 4 or 6 and up to 3 content lines
// drawn from {"a", "b c", "", "<indent+3 spaces>", "   d"}; optional `for`, one label, one annotation.

func zzSpell(lines []string, prs diags.PositionRanges) string {
	var b strings.Builder
	for _, pr := range prs {
		if pr.Line < 1 || pr.Line > len(lines) {
			b.WriteString("<line out of file>")
			continue
		}
		line := lines[pr.Line-1]
		for c := pr.FirstColumn; c <= pr.LastColumn; c++ {
			switch {
			case c >= 1 && c <= len(line):
				b.WriteByte(line[c-1])
			case c == len(line)+1:
				b.WriteByte('\n')
			default:
				b.WriteString("<column out of line>")
			}
		}
	}
	return b.String()
}

func zzSame(spelled, value string) bool {
	if len(spelled) != len(value) {
		return false
	}
	for i := range spelled {
		if spelled[i] == value[i] {
			continue
		}
		if spelled[i] == '\n' && value[i] == ' ' {
			continue // a folded line break
		}
		return false
	}
	return true
}

type zzFailure struct {
	Content string `json:"content"`
	Strict  bool   `json:"strict"`
	Field   string `json:"field"`
	Value   string `json:"value"`
	Spelled string `json:"spelled"`
	Why     string `json:"why"`
}

func TestZZBoundedC06(t *testing.T) {
	var docs []string
	exprs := []string{"up", "a b", "up == 0"}
	styles := []func(string) string{
		func(s string) string { return s },
		func(s string) string { return `"` + s + `"` },
		func(s string) string { return `'` + s + `'` },
	}
	tails := []string{"", "    for: 5m\n", "    labels:\n      team: a b\n", "    annotations:\n      summary: x y\n"}
	for _, kind := range []string{"record", "alert"} {
		for _, e := range exprs {
			for _, st := range styles {
				for _, tail := range tails {
					if kind == "record" && (strings.Contains(tail, "for:") || strings.Contains(tail, "annotations:")) {
						continue
					}
					docs = append(docs, fmt.Sprintf("groups:\n- name: g\n  rules:\n  - %s: foo\n    expr: %s\n%s", kind, st(e), tail))
				}
			}
		}
	}
	// literal block scalars
	for _, indent := range []int{6, 8} {
		pad := strings.Repeat(" ", indent)
		alphabet := []string{"a", "b c", "", pad + "   ", "   d"}
		var rec func(prefix []string, depth int)
		rec = func(prefix []string, depth int) {
			if len(prefix) > 0 && strings.TrimSpace(prefix[0]) != "" && strings.TrimSpace(prefix[len(prefix)-1]) != "" {
				var b strings.Builder
				b.WriteString("groups:\n- name: g\n  rules:\n  - record: foo\n    expr: |\n")
				for _, l := range prefix {
					if strings.TrimSpace(l) == "" {
						b.WriteString(l + "\n")
					} else {
						b.WriteString(pad + l + "\n")
					}
				}
				b.WriteString("  - record: bar\n    expr: up == 0\n")
				docs = append(docs, b.String())
			}
			if depth == 3 {
				return
			}
			for _, a := range alphabet {
				rec(append(append([]string{}, prefix...), a), depth+1)
			}
		}
		rec(nil, 0)
	}

	cases, failures := 0, 0
	distinct := map[string]bool{}
	var first *zzFailure
	fail := func(f zzFailure) {
		failures++
		if first == nil {
			first = &f
		}
	}
	for _, content := range docs {
		for _, strict := range []bool{true, false} {
			p := NewParser(strict, PrometheusSchema, 0)
			file := p.Parse(strings.NewReader(content))
			lines := strings.Split(content, "\n")
			for _, g := range file.Groups {
				for _, r := range g.Rules {
					if r.Error.Err != nil {
						continue
					}
					type fld struct {
						name string
						node *YamlNode
					}
					var fields []fld
					add := func(n string, y *YamlNode) {
						if y != nil {
							fields = append(fields, fld{n, y})
						}
					}
					var labels, annotations *YamlMap
					if r.RecordingRule != nil {
						add("record", &r.RecordingRule.Record)
						add("expr", r.RecordingRule.Expr.Value)
						labels = r.RecordingRule.Labels
					}
					if r.AlertingRule != nil {
						add("alert", &r.AlertingRule.Alert)
						add("expr", r.AlertingRule.Expr.Value)
						add("for", r.AlertingRule.For)
						labels, annotations = r.AlertingRule.Labels, r.AlertingRule.Annotations
					}
					for _, m := range []*YamlMap{labels, annotations} {
						if m == nil {
							continue
						}
						for _, it := range m.Items {
							add("key", it.Key)
							add("value", it.Value)
						}
					}
					for _, f := range fields {
						cases++
						distinct[f.name+"|"+f.node.Value+"|"+fmt.Sprint(strict)+"|"+fmt.Sprint(len(lines))] = true
						sp := zzSpell(lines, f.node.Pos)
						// the final line break(s) of a block scalar belong to the value but not to its positions
						if !zzSame(sp, f.node.Value) && !zzSame(sp, strings.TrimRight(f.node.Value, "\n")) {
							fail(zzFailure{content, strict, f.name, f.node.Value, sp, "positions do not spell the value"})
						}
						lr := f.node.Pos.Lines()
						if lr.First < r.Lines.First || lr.Last > r.Lines.Last {
							fail(zzFailure{content, strict, f.name, f.node.Value, sp, fmt.Sprintf("field lines %v outside rule lines %v", lr, r.Lines)})
						}
					}
					if r.Lines.First < 1 || r.Lines.Last > len(lines) {
						fail(zzFailure{content, strict, "rule", r.Name(), "", fmt.Sprintf("rule lines %v outside the file (%d lines)", r.Lines, len(lines))})
					}
				}
			}
		}
	}
	fmt.Printf("GOVC-BOUNDED name=C06-positions-spell-values cases=%d distinct=%d failures=%d\n", cases, len(distinct), failures)
	if first != nil {
		b, _ := json.Marshal(first)
		fmt.Printf("GOVC-BOUNDED-FAIL %s\n", b)
	}
}
