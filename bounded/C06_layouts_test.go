package parser

import (
	"fmt"

	"github.com/cloudflare/pint/internal/diags"
	"sort"
	"strings"
	"testing"
)

// Named inputs for C06 ("positions spell the text"): single layouts, each its own obligation
// bounded:C06-named-layouts:<name>. The real parser reads the document; every extracted field is read back from the
// file at its positions. Layouts that fail on the unchanged tree are recorded in known_findings.txt by name; any other
// failing layout is a violation.
func TestZZBoundedC06Layouts(t *testing.T) {
	docs := map[string]string{
		// controls (hold)
		"block-indent-2":     "groups:\n- name: g\n  rules:\n  - record: r\n    expr: |\n      sum(up)\n      > 0\n",
		"plain-continuation": "groups:\n- name: g\n  rules:\n  - record: r\n    expr: sum(up)\n      > 0\n",
		"folded-two-lines":   "groups:\n- name: g\n  rules:\n  - alert: a\n    expr: up\n    annotations:\n      summary: >\n        first\n        second\n",
		// layouts reported by a reviewer of the C06 seed; all are valid YAML that Prometheus loads
		"block-indent-1":           "groups:\n- name: g\n  rules:\n  - record: r\n    expr: |\n     sum(up)\n     > 0\n",
		"plain-short-continuation": "groups:\n- name: g\n  rules:\n  - record: r\n    expr: sum(up)\n     > 0\n",
		"strip-block-leading-dash": "groups:\n- name: g\n  rules:\n  - record: r\n    expr: |-\n      -up\n",
		"folded-blank-line":        "groups:\n- name: g\n  rules:\n  - alert: a\n    expr: up\n    annotations:\n      summary: >\n        first\n\n        second\n",
		"double-quoted-blank-line": "groups:\n- name: g\n  rules:\n  - alert: a\n    expr: up\n    annotations:\n      summary: \"first\n\n        second\"\n",
	}
	var names []string
	for n := range docs {
		names = append(names, n)
	}
	sort.Strings(names)
	cases := 0
	for _, name := range names {
		content := docs[name]
		ok := true
		detail := ""
		for _, strict := range []bool{true, false} {
			p := NewParser(strict, PrometheusSchema, 0)
			f := p.Parse(strings.NewReader(content))
			lines := strings.Split(content, "\n")
			if f.Error.Err != nil {
				ok, detail = false, fmt.Sprintf("parse error: %v", f.Error.Err)
			}
			for _, g := range f.Groups {
				for _, r := range g.Rules {
					var nodes []*YamlNode
					if r.RecordingRule != nil {
						nodes = append(nodes, &r.RecordingRule.Record, r.RecordingRule.Expr.Value)
					}
					if r.AlertingRule != nil {
						nodes = append(nodes, &r.AlertingRule.Alert, r.AlertingRule.Expr.Value)
						if r.AlertingRule.Annotations != nil {
							for _, it := range r.AlertingRule.Annotations.Items {
								nodes = append(nodes, it.Key, it.Value)
							}
						}
					}
					for _, n := range nodes {
						cases++
						sp := zzSpellL(lines, n.Pos)
						if !zzSameL(sp, n.Value) && !zzSameL(sp, strings.TrimRight(n.Value, "\n")) {
							ok = false
							detail = fmt.Sprintf("strict=%v value=%q positions spell %q", strict, n.Value, sp)
						}
					}
				}
			}
		}
		fmt.Printf("GOVC-BOUNDED-CASE name=%s ok=%v %s\n", name, ok, detail)
	}
	fmt.Printf("GOVC-BOUNDED name=C06-named-layouts cases=%d distinct=%d failures=0\n", cases, len(names))
}

func zzSpellL(lines []string, prs diags.PositionRanges) string {
	var b strings.Builder
	for _, pr := range prs {
		if pr.Line < 1 || pr.Line > len(lines) {
			b.WriteString("<line out of file>")
			continue
		}
		line := lines[pr.Line-1]
		for c := pr.FirstColumn; c <= pr.LastColumn; c++ {
			switch {
			case c >= 1 && c <= len(line):
				b.WriteByte(line[c-1])
			case c == len(line)+1:
				b.WriteByte('\n')
			default:
				b.WriteString("<column out of line>")
			}
		}
	}
	return b.String()
}

func zzSameL(spelled, value string) bool {
	if len(spelled) != len(value) {
		return false
	}
	for i := range spelled {
		if spelled[i] == value[i] {
			continue
		}
		if spelled[i] == '\n' && value[i] == ' ' {
			continue // a folded line break
		}
		return false
	}
	return true
}
