#!/bin/bash
# must-fail corpus: every kept seeded change must make the check of its property report a violation.
# usage: selftest.sh [seed-dir-name ...]   (default: all of /verif/seeded)
cd /verif
fail=0
for d in ${@:-$(ls seeded)}; do
  p=${d%%-*}
  if ! python3 -c "import json,sys;sys.exit(0 if '$p' in [c['property_id'] for c in json.load(open('MANIFEST.json'))['checks']] else 1)"; then
    echo "$d: property $p not claimed - skipped"; continue
  fi
  out=$(tools/seedrun.sh /verif/seeded/$d $p 2>&1)
  if echo "$out" | grep -q "^exit=1" && echo "$out" | grep -q "VIOLATION property=$p"; then
    echo "$d: detected ($(echo "$out" | grep -c VIOLATION) violation lines) $(echo "$out" | grep VIOLATION | head -1 | sed 's/.*obligation=//')"
  else
    echo "$d: MISSED"; echo "$out" | tail -3; fail=1
  fi
done
exit $fail
