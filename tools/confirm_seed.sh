#!/bin/bash
# usage: confirm_seed.sh <seed-dir> [base-commit] : independently confirm a seeded change in a scratch worktree of the pinned commit:
# builds, existing suite passes, demonstration fails with the change and passes without it.
S=$1
W=/var/tmp/confirm_$$
export GOFLAGS=-mod=mod GOPROXY=off
PIN=${2:-551c29a}
git -C /repo worktree add -q --detach $W $PIN || exit 2
cd $W
DEMO_PATH=$(python3 -c "import json;print(json.load(open('$S/meta.json'))['demo_path'])")
DEMO_CMD=$(python3 -c "import json;print(json.load(open('$S/meta.json'))['demo_cmd'])")
DEMO_FILE=$(ls $S/demo/* | head -1)
res() { echo "$1" | tee -a $S/confirm.log; }
: > $S/confirm.log
# 1. demo passes without the change
mkdir -p $(dirname $DEMO_PATH); cp $DEMO_FILE $DEMO_PATH
DC=$(echo "$DEMO_CMD" | sed "s#cd /tmp/seed2*/[A-Z0-9]* *&& *##; s#cp /tmp/seed2*/[A-Z0-9.a-z_/]* [a-z/]* *&& *##; s#export GOFLAGS=-mod=mod GOPROXY=off *&& *##")
if (eval "$DC") > /tmp/confirm_out_$$ 2>&1; then res "demo_without_change: pass"; else res "demo_without_change: FAIL"; tail -5 /tmp/confirm_out_$$ >> $S/confirm.log; fi
# 2. apply, build
git apply $S/patch.diff && res "apply: ok" || res "apply: FAIL"
go build ./... > /tmp/confirm_out_$$ 2>&1 && res "build: ok" || res "build: FAIL"
# 3. demo fails with the change
if (eval "$DC") > /tmp/confirm_out_$$ 2>&1; then res "demo_with_change: PASS (unexpected)"; else res "demo_with_change: fail (expected)"; fi
rm -f $DEMO_PATH
# 4. suite passes with the change (retry cmd/pint once: fixed ports)
go test -vet=off -count=1 ./... > /tmp/confirm_out_$$ 2>&1
if grep -q "^FAIL" /tmp/confirm_out_$$; then
  sleep 5; go test -vet=off -count=1 $(grep "^FAIL" /tmp/confirm_out_$$ | awk '{print $2}' | sort -u | grep pint) > /tmp/confirm_out2_$$ 2>&1
  if grep -q "^FAIL" /tmp/confirm_out2_$$; then res "suite_with_change: FAIL"; grep "^FAIL\|^---" /tmp/confirm_out2_$$ | head -5 >> $S/confirm.log; else res "suite_with_change: pass (after retry of port-bound package)"; fi
else res "suite_with_change: pass"; fi
cd /; git -C /repo worktree remove --force $W; rm -f /tmp/confirm_out_$$ /tmp/confirm_out2_$$
