#!/bin/bash
# run every claimed quick check (sequentially; each uses 16 solver workers) and print one line per property
cd /verif
for p in $(python3 -c "import json;print(' '.join(c['property_id'] for c in json.load(open('MANIFEST.json'))['checks']))"); do
  cmd=$(python3 -c "import json;print([c['quick_cmd'] for c in json.load(open('MANIFEST.json'))['checks'] if c['property_id']=='$p'][0])")
  out=$($cmd 2>&1); rc=$?
  echo "$p rc=$rc $(echo "$out" | tail -1)"
  echo "$out" | grep VIOLATION | head -5
done
