#!/bin/bash
# usage: mut.sh <file-relative-to-repo> <sed-expression> <fn keys> : apply a mutation to a scratch copy and run govc verify on it
set -e
D=/var/tmp/pm
mkdir -p $D
rsync -a --delete --exclude .git /repo/ $D/
sed -i "$2" $D/$1
if diff -q /repo/$1 $D/$1 >/dev/null; then echo "MUTATION DID NOT APPLY"; exit 3; fi
diff /repo/$1 $D/$1 || true
/verif/bin/govc verify -repo $D -fn "$3" 2>&1 | tail -15
rm -rf $D
