#!/usr/bin/env python3
"""Regenerates /verif/MANIFEST.json from the table below (claimed checks) and properties.jsonl."""
import json, subprocess

props = [json.loads(l) for l in open('/verif/properties.jsonl')]

# id -> (category, technique, level text, level note, design ref)
CLAIMS = {
 "C13": ("proof", "contract-based deductive verification: WP VCs over go/ssa of the real functions, discharged by z3/cvc5",
         "Unbounded proof, for all inputs and iterations, of the contracts of sliceRange (slice geometry, grid contiguity, termination), AppendSampleToRanges (a range is extended only by a sample within one step of its end; a new range starts only after a gap; ranges stay separated by more than a step; other series untouched), ExpandRangesEnd, Overlaps (soundness: merge only when gap <= step and result is the hull; completeness for staggered ranges) and the call-site obligations of Prometheus.RangeQuery (slice size positive and a multiple of the step). The composition of these facts into the end-to-end statement (MergeRanges confluence over arrival orders) is not proved.",
         "x/tools go/ssa translation, solver soundness, integers mathematical, time as one integer timeline (A1-A4), type-based frame for uncontracted callees (A6); MergeRanges fixed point and goroutine/channel plumbing of RangeQuery are outside the proof", "DESIGN.md §7 C13"),
}
CLAIMS["C05"] = ("proof", "contract-based deductive verification: WP VCs over go/ssa of the real functions, discharged by z3/cvc5",
         "Unbounded proof that actionLint returns an error exactly when some report has severity >= --fail-on (loop invariant over the map range in any iteration order; --min-severity and duplicate folding do not occur in the decision), that actionCI returns an error whenever a counted severity reaches the threshold and nil on the final return otherwise, with Summary.CountBySeverity (domain = severities present, counts >= 1), Summary.Dedup (problems untouched), ParseSeverity (table) and the order of the severity constants under contract.",
         "assumed: urfave/cli turns the action's error into a non-zero exit via main (not under contract); SortReports permutes reports (slices.SortStableFunc, A5); early returns for I/O or flag errors are 'linting did not complete' and carry no obligation", "DESIGN.md §7 C05")
CLAIMS["C15"] = ("proof", "contract-based deductive verification with a ghost call trace: WP VCs over go/ssa, discharged by z3/cvc5",
         "Unbounded proof, for every number of upstreams and every fault assignment, that each of the five FailoverGroup request methods contacts an upstream only if every earlier one failed with an unavailability error (plus 'unsupported' for config/flags/metadata), that the outcome is the outcome of the last upstream contacted (answer on success; on failure the same error wrapped with that upstream's URI and the group's strict flag), with IsUnavailableError, isUnsupportedError, decodeErrorType and problemFromError's severity table under contract.",
         "errors.As/errors.Is are modelled as uninterpreted predicate/extractor pairs (A5): which Go error values concrete network faults produce is not decided; upstream request methods are used through empty contracts", "DESIGN.md §7 C15")
CLAIMS["C09"] = ("proof", "contract-based deductive verification: WP VCs over go/ssa of the real functions, ghost variables for delegated sub-conditions, discharged by z3/cvc5",
         "Unbounded proof that Match.IsMatch is exactly the conjunction of the documented conditions (command, state, kind, fully anchored path and name patterns, label, annotation, for and keep_firing_for with their comparison operator), that label/annotation conditions are an existential over the merged group+rule label view with both patterns anchored, that config.isMatch is 'no ignore block holds and (no match block or some match block holds)' with no block skipped, that the state default depends on the command (defaultMatchStates, defaultRuleMatch), plus stateMatches, durationMatch.isMatch, parseMatchOperation, strictRegex; and that merging rule labels into group labels (parser.MergeMaps/setValue) keeps every group label key visible and leaves the group's own labels unchanged.",
         "regexp matching, duration parsing and context lookup are uninterpreted (trusted contracts on parseDuration, parseDurationMatch, commandFromContext; A5 on regexp); nil-safety of YAML item pointers assumed", "DESIGN.md §7 C09")
CLAIMS["C08"] = ("proof", "contract-based deductive verification: WP VCs over go/ssa, ghost call traces, class-hierarchy dispatch of Reporter()/String()/Meta() in specifications; discharged by z3/cvc5",
         "Unbounded proof that every check is registered under the name its own Reporter() returns (precondition of baseParsedRule/newParsedRule, an obligation at all 35 registration sites in baseRules, config.parseRule and GetChecksForEntry), that config.isEnabled disables a check iff its name (or String()) is listed / it is not in a non-empty enabled list / a rule comment disables it and the block is not locked, with AlwaysEnabled checks immune, and that parsedRule.isEnabled consults the state gate, file-level disables, every matching rule{} block (disable in any matching block wins; no block skipped before enabling) and then the global lists, always with the check's own name.",
         "A11: String()/Reporter()/Meta() of check values are deterministic, effect-free functions of the receiver; slices.Contains per A5; regexp matching of --disabled patterns and the tag-suffixed name form are outside the contract; Problem.Reporter of emitted problems is not yet under contract", "DESIGN.md §7 C08")
CLAIMS["C10"] = ("other", "contract-based deductive verification: the reader's flags are proved to refine the exclusion automaton of the property on live lines; three excluded-line clauses fail and are recorded as known findings",
         "Unbounded proof of ContentReader.emptyCurrentLine (newlines kept, everything before the first pint comment or the whole line inside a block blanked, nothing else changed), of parseComments on live lines (no marker: text and flags unchanged; next-line / begin / line / file markers move the automaton as documented) and on excluded lines without pint comments (fully blank, automaton step independent of the text), and of readNextLine (the line table is built from the blanked text). Three clauses about excluded lines that carry pint comments do not hold on the pinned tree; they are genuine defects, replayed on the real code and listed in known_findings.txt, which is why the level is 'other' and not 'proof'.",
         "comments.Parse is abstract (any list of typed comments with offsets); yaml.v3's treatment of blank lines of different length is not modelled; ignore/file relies on discovery dropping the file body", "DESIGN.md §7 C10")
CLAIMS["C17"] = ("proof", "contract-based deductive verification with ghost sets (created / deferred / deleted comments) over an abstract Commenter; WP VCs over go/ssa, discharged by z3/cvc5",
         "Unbounded proof, for every list of existing and pending comments and every platform behaviour of IsEqual/CanCreate/CanDelete, that updateDestination creates a comment only for a pending comment with no equal existing comment and only while the budget predicate allows (the budget counts successful creations), that after a run every pending comment is covered by an equal existing comment, a created comment or is deferred by the budget, that a comment is deleted only if it equals no pending comment and may be deleted, and that every such deletable stale comment is deleted; with CanCreate (done < maxComments), CanDelete and GitLab's IsEqual under contract.",
         "A7: platform store semantics (a created comment is later listed as an equal existing comment) and the assumed effect-free contracts on the Commenter interface; the spec-level 'second run is a no-op' lemma and dedupReports/makeComments grouping are not yet under contract; GitHub's line fixing in IsEqual is outside", "DESIGN.md §7 C17")
NA = {
 "C19": "two-run relational property of two recursive traversals over a third-party AST (yaml.Node) quantified over wrappers of arbitrary depth; no contract within reach of the generator can state it (DESIGN.md §8)",
}

hooks = subprocess.run(["git","-C","/repo","log","--format=%H","--grep=^verif hook"],capture_output=True,text=True).stdout.split()
checks=[]; na=[]
for p in props:
    i=p["id"]
    if i in CLAIMS:
        cat,tech,text,note,ref=CLAIMS[i]
        checks.append({"property_id":i,"quick_cmd":f"./check {i} quick {cat}","thorough_cmd":f"./check {i} thorough {cat}","evidence_file":f"/verif/evidence/{i}.json",
          "replay_cmd_template":"cat {path}","engine":"govc","level_claimed":{"category":cat,"text":text,"design_ref":ref},"level_note":note,"technique":tech})
    else:
        na.append({"property_id":i,"reason":NA.get(i,"check not built yet (contracts for this property are still being written); see DESIGN.md §7 for the plan")})
m={"version":1,
 "setup_cmd":"cd /verif/engine && GOFLAGS=-mod=vendor GOPROXY=off go build -o /verif/bin/govc . && cd /repo && GOFLAGS=-mod=mod GOPROXY=off go build ./...",
 "hooks":{"guard":"verif","enable":"contract files /repo/**/zz_contracts_verif.go carry //go:build verif and contain only comments; govc loads /repo with -tags verif and reads the //@ lines","baseline_off_cmd":"cd /repo && GOFLAGS=-mod=mod GOPROXY=off go test -json -vet=off -count=1 -timeout 25m ./...","source_commits":hooks,"add_only":True},
 "engines":[{"name":"govc","path":"/verif/engine","serves_properties":sorted(CLAIMS),"kind_free_text":"weakest-precondition VC generator over go/ssa (x/tools v0.29.0, NaiveForm) for the real functions of /repo; contracts in build-tagged comment-only files; obligations discharged by z3 5.1 / z3 4.8 / cvc5 1.0"}],
 "checks":checks,"not_applicable":na,"notes":"see DESIGN.md; known_findings.txt lists recorded and fixed defects"}
json.dump(m,open('/verif/MANIFEST.json','w'),indent=1)
print("claimed:",sorted(CLAIMS),"hooks:",len(hooks))
