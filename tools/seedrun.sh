#!/bin/bash
# usage: seedrun.sh <seed-dir> <property> [quick|thorough] : apply a seeded change to /repo, run the property's check, undo
set -u
S=$1; P=$2; T=${3:-quick}
cd /repo
if [ -n "$(git status --porcelain)" ]; then echo "/repo not clean"; exit 3; fi
if ! git apply --check "$S/patch.diff" 2>/dev/null; then
  if [ -f "$S/patch.rebased.diff" ]; then PATCH="$S/patch.rebased.diff"; else echo "patch does not apply"; exit 4; fi
else PATCH="$S/patch.diff"; fi
git apply "$PATCH" || exit 4
cd /verif && ./bin/govc check -prop $P -tier $T -repo /repo -verif /verif -no-evidence 2>&1 | grep -v "^KNOWN" | cut -c1-260 | tail -12
RC=${PIPESTATUS[0]}
cd /repo && git checkout -- . && git status --porcelain | head -3
echo "exit=$RC"
